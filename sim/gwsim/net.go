package gwsim

import (
	"errors"
	"net"
	"strings"
	"sync"
)

// pipeListener is the gateway's net.Listener: every simulated connection is one net.Pipe whose
// server end is handed out by Accept.
type pipeListener struct {
	ch     chan net.Conn
	closed chan struct{}
	once   sync.Once
}

func newPipeListener() *pipeListener {
	return &pipeListener{ch: make(chan net.Conn), closed: make(chan struct{})}
}

func (l *pipeListener) Accept() (net.Conn, error) {
	select {
	case c := <-l.ch:
		return c, nil
	case <-l.closed:
		return nil, net.ErrClosed
	}
}

func (l *pipeListener) Close() error {
	l.once.Do(func() { close(l.closed) })
	return nil
}

type pipeAddr struct{}

func (pipeAddr) Network() string { return "pipe" }
func (pipeAddr) String() string  { return "pipe" }

func (l *pipeListener) Addr() net.Addr { return pipeAddr{} }

// connect creates a connection and returns the client end.
func (l *pipeListener) connect() (net.Conn, error) {
	c, s := net.Pipe()
	select {
	case l.ch <- s:
		return c, nil
	case <-l.closed:
		c.Close()
		s.Close()
		return nil, errors.New("gateway closed")
	}
}

// abortConn is a client end that hangs up at its k-th write (client vanishing inside the handshake).
type abortConn struct {
	net.Conn
	left  int
	fired *bool
}

func (a *abortConn) Write(p []byte) (int, error) {
	if a.left <= 0 {
		*a.fired = true
		a.Conn.Close()
		return 0, errors.New("gwsim: client aborted")
	}
	a.left--
	return a.Conn.Write(p)
}

// captureLog collects what the gateway's http.Server reports (TLS handshake errors, handler panics).
type captureLog struct {
	mu    sync.Mutex
	lines []string
}

func (c *captureLog) Write(p []byte) (int, error) {
	c.mu.Lock()
	for _, l := range strings.Split(strings.TrimSpace(string(p)), "\n") {
		c.lines = append(c.lines, l)
	}
	c.mu.Unlock()
	return len(p), nil
}

func (c *captureLog) take() []string {
	c.mu.Lock()
	defer c.mu.Unlock()
	out := c.lines
	c.lines = nil
	return out
}
