package gwsim

import (
	"errors"
	"io"
	"net"
	"os"
	"strings"
	"sync"
	"testing/synctest"
	"time"
)

// pipeListener is the gateway's net.Listener: every simulated connection is one in-memory pipe whose
// server end is handed out by Accept.
type pipeListener struct {
	ch     chan net.Conn
	closed chan struct{}
	once   sync.Once
}

func newPipeListener() *pipeListener {
	return &pipeListener{ch: make(chan net.Conn), closed: make(chan struct{})}
}

func (l *pipeListener) Accept() (net.Conn, error) {
	select {
	case c := <-l.ch:
		return c, nil
	case <-l.closed:
		return nil, net.ErrClosed
	}
}

func (l *pipeListener) Close() error {
	l.once.Do(func() { close(l.closed) })
	return nil
}

type pipeAddr struct{}

func (pipeAddr) Network() string { return "pipe" }
func (pipeAddr) String() string  { return "pipe" }

func (l *pipeListener) Addr() net.Addr { return pipeAddr{} }

// connect creates a connection and returns the client end.
func (l *pipeListener) connect() (net.Conn, error) {
	c, s := bufPipe()
	select {
	case l.ch <- s:
		return c, nil
	case <-l.closed:
		c.Close()
		s.Close()
		return nil, errors.New("gateway closed")
	}
}

// abortConn is a client end that hangs up at its k-th write (client vanishing inside the handshake).
// Write must be called on the goroutine that drives the run (it waits for quiescence).
type abortConn struct {
	net.Conn
	left  int
	fired *bool
}

func (a *abortConn) Write(p []byte) (int, error) {
	if a.left <= 0 {
		*a.fired = true
		synctest.Wait() // let the gateway digest what was sent so far, then vanish
		a.Conn.Close()
		return 0, errors.New("gwsim: client aborted")
	}
	a.left--
	return a.Conn.Write(p)
}

// captureLog collects what the gateway's http.Server reports (TLS handshake errors, handler panics).
type captureLog struct {
	mu    sync.Mutex
	lines []string
}

func (c *captureLog) Write(p []byte) (int, error) {
	c.mu.Lock()
	for _, l := range strings.Split(strings.TrimSpace(string(p)), "\n") {
		c.lines = append(c.lines, l)
	}
	c.mu.Unlock()
	return len(p), nil
}

func (c *captureLog) take() []string {
	c.mu.Lock()
	defer c.mu.Unlock()
	out := c.lines
	c.lines = nil
	return out
}

// bufPipe is net.Pipe with socket buffers: a full-duplex in-memory connection whose writes never
// block (like a TCP socket with room in its send buffer).  The strictly synchronous net.Pipe
// deadlocks a TLS 1.3 session resumption (the server sends its session tickets while the client sends
// its Finished message - both block in Write), which no real network does.  All blocking happens on
// channels and timers created inside the synctest bubble.
func bufPipe() (net.Conn, net.Conn) {
	a2b, b2a := newHalf(), newHalf()
	return &bufConn{rd: b2a, wr: a2b}, &bufConn{rd: a2b, wr: b2a}
}

type half struct {
	mu       sync.Mutex
	buf      []byte
	wclosed  bool // the writing end hung up: the reader drains, then sees EOF
	rclosed  bool // the reading end hung up: the writer gets an error
	deadline time.Time
	wake     chan struct{}
}

func newHalf() *half { return &half{wake: make(chan struct{}, 1)} }

func (h *half) poke() {
	select {
	case h.wake <- struct{}{}:
	default:
	}
}

type bufConn struct {
	rd, wr *half
}

func (c *bufConn) Read(p []byte) (int, error) {
	h := c.rd
	for {
		h.mu.Lock()
		switch {
		case h.rclosed:
			h.mu.Unlock()
			return 0, io.ErrClosedPipe
		case len(h.buf) > 0:
			n := copy(p, h.buf)
			h.buf = h.buf[n:]
			if len(h.buf) > 0 {
				h.poke()
			}
			h.mu.Unlock()
			return n, nil
		case h.wclosed:
			h.mu.Unlock()
			return 0, io.EOF
		}
		dl := h.deadline
		h.mu.Unlock()
		if len(p) == 0 {
			return 0, nil
		}
		if dl.IsZero() {
			<-h.wake
			continue
		}
		d := time.Until(dl)
		if d <= 0 {
			return 0, os.ErrDeadlineExceeded
		}
		t := time.NewTimer(d)
		select {
		case <-h.wake:
			t.Stop()
		case <-t.C:
		}
	}
}

func (c *bufConn) Write(p []byte) (int, error) {
	h := c.wr
	h.mu.Lock()
	if h.wclosed || h.rclosed {
		h.mu.Unlock()
		return 0, io.ErrClosedPipe
	}
	h.buf = append(h.buf, p...)
	h.poke()
	h.mu.Unlock()
	return len(p), nil
}

func (c *bufConn) Close() error {
	c.rd.mu.Lock()
	c.rd.rclosed = true
	c.rd.buf = nil
	c.rd.poke()
	c.rd.mu.Unlock()
	c.wr.mu.Lock()
	c.wr.wclosed = true
	c.wr.poke()
	c.wr.mu.Unlock()
	return nil
}

func (c *bufConn) LocalAddr() net.Addr  { return pipeAddr{} }
func (c *bufConn) RemoteAddr() net.Addr { return pipeAddr{} }

func (c *bufConn) SetDeadline(t time.Time) error { return c.SetReadDeadline(t) }

func (c *bufConn) SetReadDeadline(t time.Time) error {
	c.rd.mu.Lock()
	c.rd.deadline = t
	c.rd.poke()
	c.rd.mu.Unlock()
	return nil
}

func (c *bufConn) SetWriteDeadline(time.Time) error { return nil } // writes never block
