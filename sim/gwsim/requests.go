package gwsim

import (
	"fmt"
	"strings"

	"verifsim/chainsim"
)

// route kinds
const (
	rtLeaseStatus = iota
	rtManifest
	rtServiceStatus
	rtKubeEvents
	rtLogs
	rtShell
	rtStatus
	rtValidate
)

var rtNames = []string{"lease-status", "manifest", "service-status", "kubeevents", "logs", "shell", "status", "validate"}

type reqSpec struct {
	route   int
	method  string
	raw     string // request target exactly as put on the request line
	body    string
	ws      bool // send websocket upgrade headers
	headers [][2]string
	hostile []string // what is hostile about it (empty: plain request for an own lease)
}

func (q reqSpec) ownerScoped() bool { return q.route != rtStatus && q.route != rtValidate }

var dseqPool = []uint64{1, 2, 7, 1000, 4294967296}

// values that are not plain decimal numbers in range
var weirdNumbers = []string{"18446744073709551616", "18446744073709551615", "4294967296", "-1", "+1", "0", "01", "0x1", "1e0", "%201", "1%00", "1.0",
	"99999999999999999999999999", "%D9%A1", "1%0a", ""}

var serviceNames = []string{"web", "..", "%2e%2e", "web%2Fstatus", "a%20b", "%00"}

var manifestBodies = []string{`[{"Name":"g","Services":[]}]`, `[]`, `{`, `null`, `[{"Name":"g","Services":[{"Name":"web","Image":"x","Count":1}]}]`}

// genRequest draws one request.  who is the account the presented certificate names (nil: none);
// first requests are well-formed owner-scoped requests (the authentication probe of the connection),
// later ones may carry hostile path/query material.
func (s *sim) genRequest(who *chainsim.Actor, first bool) reqSpec {
	r := s.r
	var q reqSpec
	if first {
		q.route = r.Weighted([]int{6, 3, 2, 1, 1, 1}, "rq.route")
	} else {
		q.route = r.Weighted([]int{6, 4, 3, 2, 2, 2, 2, 2}, "rq.route")
	}
	switch q.route {
	case rtStatus:
		q.method, q.raw = "GET", "/status"
		if r.Bool(30, "rq.status.query") {
			q.raw += "?owner=" + s.victimOf(who).Bech
		}
		return q
	case rtValidate:
		q.method, q.raw, q.body = "GET", "/validate", `{"name":"g"}`
		return q
	}

	// whose lease does the URL name?
	src := r.Weighted([]int{4, 4, 2, 2}, "rq.idsrc")
	if first && src == 3 {
		src = 2
	}
	victim := s.victimOf(who)
	var l lease
	switch src {
	case 0: // a lease of the authenticated account (if it has one)
		l = s.pickLease(who, "rq.own")
	case 1: // a lease of another tenant
		l = s.pickLease(victim, "rq.victim")
		if victim != who {
			q.hostile = append(q.hostile, "victim-lease")
		}
	case 2, 3: // a lease nobody has at this provider
		l = lease{dseq: 999 + uint64(r.Choose(3, "rq.nolease")), gseq: 1, oseq: 1}
		q.hostile = append(q.hostile, "no-such-lease")
	}
	d, g, o := fmt.Sprint(l.dseq), fmt.Sprint(l.gseq), fmt.Sprint(l.oseq)
	if src == 3 {
		v := weirdNumbers[r.Choose(len(weirdNumbers), "rq.weird")]
		switch r.Choose(3, "rq.weird.pos") {
		case 0:
			d = v
		case 1:
			g = v
		default:
			o = v
		}
		q.hostile = append(q.hostile, "number:"+v)
	}

	suffix := ""
	q.method = "GET"
	switch q.route {
	case rtLeaseStatus:
		suffix = "/status"
	case rtServiceStatus:
		svc := serviceNames[0]
		if !first {
			svc = serviceNames[r.Choose(len(serviceNames), "rq.svc")]
		}
		suffix = "/service/" + svc + "/status"
	case rtKubeEvents:
		suffix, q.ws = "/kubeevents", true
		if r.Bool(40, "rq.stream.params") {
			suffix += "?follow=true&service=web&tail=5"
		}
	case rtLogs:
		suffix, q.ws = "/logs", true
		if r.Bool(40, "rq.stream.params") {
			suffix += "?follow=false&tail=-1"
		}
	case rtShell:
		suffix = "/shell?cmd0=ls&tty=0&stdin=0&service=web&podIndex=0"
		if r.Bool(50, "rq.shell.post") {
			q.method = "POST"
		}
	case rtManifest:
		q.method = "PUT"
		q.body = manifestBodies[0]
		if !first {
			q.body = manifestBodies[r.Choose(len(manifestBodies), "rq.body")]
		}
	}
	base := "/lease/" + d + "/" + g + "/" + o
	if q.route == rtManifest {
		base = "/deployment/" + d
		suffix = "/manifest"
	}
	q.raw = base + suffix
	if first {
		return q
	}

	// hostile decoration of the request target
	vl := s.pickLease(victim, "rq.mut.victimlease")
	vd, vg, vo := fmt.Sprint(vl.dseq), fmt.Sprint(vl.gseq), fmt.Sprint(vl.oseq)
	other := s.otherProvider.Bech
	mut := r.Weighted([]int{8, 4, 3, 3, 3, 2, 3, 2, 2, 3, 2, 2, 2}, "rq.mut")
	switch mut {
	case 0:
	case 1: // identity in query parameters
		q.raw = addQuery(q.raw, "owner="+victim.Bech+"&provider="+other+"&dseq="+vd+"&gseq="+vg+"&oseq="+vo)
	case 2: // encoded separator inside a segment
		if q.route == rtManifest {
			q.raw = "/deployment/" + vd + "%2F" + d + suffix
		} else {
			q.raw = "/lease/" + d + "%2F" + g + "/" + o + suffix
		}
	case 3: // dot segments walking from the victim's lease to the named one
		if q.route == rtManifest {
			q.raw = "/deployment/" + vd + "/../" + d + suffix
		} else {
			q.raw = "/lease/" + vd + "/" + vg + "/" + vo + "/../../../" + d + "/" + g + "/" + o + suffix
		}
	case 4: // extra segment: the victim's address after the ids
		q.raw = base + "/" + victim.Bech + suffix
	case 5: // doubled separators
		q.raw = "/" + strings.Replace(base, "/", "//", 2) + suffix
	case 6: // the victim's address as leading id segment
		if q.route == rtManifest {
			q.raw = "/deployment/" + victim.Bech + "/" + d + suffix
		} else {
			q.raw = "/lease/" + victim.Bech + "/" + d + "/" + g + "/" + o + suffix
		}
	case 7: // encoded dot segments
		q.raw = base + "/%2e%2e/%2e%2e" + suffix
	case 8: // other spelling of the fixed segment
		q.raw = strings.Replace(strings.Replace(q.raw, "/lease/", "/LEASE/", 1), "/deployment/", "/Deployment/", 1)
	case 9: // identity in headers
		q.headers = append(q.headers, [2]string{"Owner", victim.Bech}, [2]string{"X-Owner", victim.Bech}, [2]string{"X-Provider", other},
			[2]string{"X-Forwarded-Client-Cert", "Subject=\"CN=" + victim.Bech + "\""})
	case 10: // trailing separator
		q.raw = addQuery(strings.SplitN(q.raw, "?", 2)[0]+"/", queryOf(q.raw))
	case 11: // absolute-form target with user info
		q.raw = "https://" + victim.Bech + "@gateway" + q.raw
	case 12: // encoded separator + victim ids appended to the last id
		q.raw = base + "%2F..%2F..%2F..%2F" + vd + "%2F" + vg + "%2F" + vo + suffix
	}
	if mut != 0 {
		q.hostile = append(q.hostile, fmt.Sprintf("mut%d", mut))
	}
	if mut != 1 && r.Bool(25, "rq.query.extra") {
		q.raw = addQuery(q.raw, "owner="+victim.Bech+"&provider="+other)
		q.hostile = append(q.hostile, "query-identity")
	}
	return q
}

func addQuery(raw, kv string) string {
	if kv == "" {
		return raw
	}
	if strings.Contains(raw, "?") {
		return raw + "&" + kv
	}
	return raw + "?" + kv
}

func queryOf(raw string) string {
	if i := strings.Index(raw, "?"); i >= 0 {
		return raw[i+1:]
	}
	return ""
}

// victimOf draws an account other than who (preferring one that has leases at this provider).
func (s *sim) victimOf(who *chainsim.Actor) *chainsim.Actor {
	var cands []*chainsim.Actor
	for _, a := range s.actors {
		if a != who && len(s.leasesOf[a.Bech]) > 0 {
			cands = append(cands, a)
		}
	}
	if len(cands) == 0 {
		for _, a := range s.actors {
			if a != who {
				cands = append(cands, a)
			}
		}
	}
	if len(cands) == 0 {
		return s.actors[0]
	}
	return cands[s.r.Choose(len(cands), "rq.victim.who")]
}

func (s *sim) pickLease(a *chainsim.Actor, label string) lease {
	if a == nil {
		return lease{dseq: 1, gseq: 1, oseq: 1}
	}
	ls := s.leasesOf[a.Bech]
	if len(ls) == 0 {
		return lease{owner: a.Bech, dseq: 1, gseq: 1, oseq: 1}
	}
	return ls[s.r.Choose(len(ls), label)]
}
