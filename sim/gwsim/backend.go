package gwsim

import (
	"context"
	"fmt"
	"io"
	"sync"

	sdk "github.com/cosmos/cosmos-sdk/types"
	"k8s.io/client-go/tools/remotecommand"

	"github.com/ovrclk/akash/manifest"
	"github.com/ovrclk/akash/provider"
	"github.com/ovrclk/akash/provider/cluster"
	kubeclient "github.com/ovrclk/akash/provider/cluster/kube"
	cltypes "github.com/ovrclk/akash/provider/cluster/types"
	pmanifest "github.com/ovrclk/akash/provider/manifest"
	dtypes "github.com/ovrclk/akash/x/deployment/types"
	mtypes "github.com/ovrclk/akash/x/market/types"
)

// call is one invocation of a back-end stub, with the identity the gateway handed over.
type call struct {
	Method   string
	Scoped   bool // lease- or deployment-scoped (carries an owner)
	Owner    string
	Provider string // only for lease ids
	HasProv  bool
	DSeq     uint64
	GSeq     uint32
	OSeq     uint32
	Extra    string
}

type lease struct {
	owner string
	dseq  uint64
	gseq  uint32
	oseq  uint32
}

// backend implements provider.Client with recording stubs: nothing is deployed, every call records
// what it was given and answers from a fixed lease table.
type backend struct {
	mu       sync.Mutex
	calls    []call
	provider string
	leases   map[lease]bool
}

var _ provider.Client = (*backend)(nil)

func newBackend(providerBech string) *backend {
	return &backend{provider: providerBech, leases: map[lease]bool{}}
}

func (b *backend) record(c call) {
	b.mu.Lock()
	b.calls = append(b.calls, c)
	b.mu.Unlock()
}

// take returns and clears the calls recorded so far.
func (b *backend) take() []call {
	b.mu.Lock()
	defer b.mu.Unlock()
	out := b.calls
	b.calls = nil
	return out
}

func (b *backend) recordLease(method string, id mtypes.LeaseID, extra string) bool {
	b.record(call{Method: method, Scoped: true, Owner: id.Owner, Provider: id.Provider, HasProv: true, DSeq: id.DSeq, GSeq: id.GSeq, OSeq: id.OSeq, Extra: extra})
	return id.Provider == b.provider && b.leases[lease{id.Owner, id.DSeq, id.GSeq, id.OSeq}]
}

func (b *backend) hasDeployment(id dtypes.DeploymentID) bool {
	for l := range b.leases {
		if l.owner == id.Owner && l.dseq == id.DSeq {
			return true
		}
	}
	return false
}

// ---- provider.StatusClient / ValidateClient (unauthenticated routes)

func (b *backend) Status(context.Context) (*provider.Status, error) {
	b.record(call{Method: "Status"})
	return &provider.Status{ClusterPublicHostname: "gwsim"}, nil
}

func (b *backend) Validate(_ context.Context, g dtypes.GroupSpec) (provider.ValidateGroupSpecResult, error) {
	b.record(call{Method: "Validate", Extra: g.Name})
	return provider.ValidateGroupSpecResult{MinBidPrice: sdk.NewInt64Coin("uakt", 1)}, nil
}

func (b *backend) Manifest() pmanifest.Client { return manifestStub{b} }
func (b *backend) Cluster() cluster.Client    { return clusterStub{b} }

// ---- manifest client

type manifestStub struct{ b *backend }

func (m manifestStub) Submit(_ context.Context, id dtypes.DeploymentID, mani manifest.Manifest) error {
	m.b.record(call{Method: "Manifest.Submit", Scoped: true, Owner: id.Owner, DSeq: id.DSeq, Extra: fmt.Sprintf("groups=%d", len(mani))})
	if !m.b.hasDeployment(id) {
		return pmanifest.ErrNoLeaseForDeployment
	}
	return nil
}

func (m manifestStub) IsActive(_ context.Context, id dtypes.DeploymentID) (bool, error) {
	m.b.record(call{Method: "Manifest.IsActive", Scoped: true, Owner: id.Owner, DSeq: id.DSeq})
	return false, nil // the shell route stops with 404 before any streaming starts
}

// ---- cluster client

type clusterStub struct{ b *backend }

func (c clusterStub) LeaseStatus(_ context.Context, id mtypes.LeaseID) (*cltypes.LeaseStatus, error) {
	if !c.b.recordLease("Cluster.LeaseStatus", id, "") {
		return nil, kubeclient.ErrLeaseNotFound
	}
	return &cltypes.LeaseStatus{Services: map[string]*cltypes.ServiceStatus{"web": {Name: "web", Available: 1, Total: 1}}}, nil
}

func (c clusterStub) ServiceStatus(_ context.Context, id mtypes.LeaseID, name string) (*cltypes.ServiceStatus, error) {
	if !c.b.recordLease("Cluster.ServiceStatus", id, "service="+name) {
		return nil, kubeclient.ErrLeaseNotFound
	}
	return &cltypes.ServiceStatus{Name: name, Available: 1, Total: 1}, nil
}

// LeaseEvents answers "no such lease" (nil watcher): the gateway then sends one websocket close frame
// and hangs up, so the route is exercised without any streaming.
func (c clusterStub) LeaseEvents(_ context.Context, id mtypes.LeaseID, services string, follow bool) (cltypes.EventsWatcher, error) {
	c.b.recordLease("Cluster.LeaseEvents", id, fmt.Sprintf("services=%s follow=%v", services, follow))
	return nil, nil
}

// LeaseLogs answers "no running pods" (empty list): one close frame, no streaming.
func (c clusterStub) LeaseLogs(_ context.Context, id mtypes.LeaseID, services string, follow bool, tail *int64) ([]*cltypes.ServiceLog, error) {
	c.b.recordLease("Cluster.LeaseLogs", id, fmt.Sprintf("services=%s follow=%v", services, follow))
	return nil, nil
}

func (c clusterStub) Deploy(_ context.Context, id mtypes.LeaseID, _ *manifest.Group) error {
	c.b.recordLease("Cluster.Deploy", id, "")
	return nil
}

func (c clusterStub) TeardownLease(_ context.Context, id mtypes.LeaseID) error {
	c.b.recordLease("Cluster.TeardownLease", id, "")
	return nil
}

func (c clusterStub) Deployments(context.Context) ([]cltypes.Deployment, error) {
	c.b.record(call{Method: "Cluster.Deployments"})
	return nil, nil
}

func (c clusterStub) Inventory(context.Context) ([]cltypes.Node, error) {
	c.b.record(call{Method: "Cluster.Inventory"})
	return nil, nil
}

func (c clusterStub) Exec(_ context.Context, id mtypes.LeaseID, service string, _ uint, _ []string, _ io.Reader, _ io.Writer, _ io.Writer, _ bool,
	_ remotecommand.TerminalSizeQueue) (cltypes.ExecResult, error) {
	c.b.recordLease("Cluster.Exec", id, "service="+service)
	return nil, cluster.ErrExec
}
