// Package gwsim is the engine for property C09: the real provider gateway (TLS configuration with
// VerifyPeerCertificate, REST router and middleware) is served over in-memory pipes inside a
// testing/synctest bubble, certificates are registered and revoked on a real chain application through
// real transactions, and clients with genuine, forged, revoked, unknown, expired, not-yet-valid,
// wrong-usage, chained or no certificates send well-formed and hostile requests.
package gwsim

import (
	"context"
	"fmt"
	"os"
	"path/filepath"
	"runtime/debug"
	"strings"
	"testing"
	"testing/synctest"

	"verifsim/chainsim"
	"verifsim/core"
)

type Engine struct{ T *testing.T }

func (Engine) Name() string { return "gwsim" }

func (Engine) Properties() []string { return []string{"C09"} }

func (e Engine) Execute(r *core.Run) (viol *core.Violation) {
	if r.Property != "C09" {
		panic("gwsim: no scenario for " + r.Property)
	}
	// the chain lives outside the bubble; the run only calls into it
	w := chainsim.NewWorld(r, 1)
	var pan interface{}
	var stack []byte
	synctest.Test(e.T, func(t *testing.T) {
		ctx, cancel := context.WithCancel(context.Background())
		s := newSim(r, w)
		defer func() {
			if p := recover(); p != nil {
				pan, stack = p, debug.Stack()
			}
			cancel()
			s.shutdown()
		}()
		s.start(ctx)
		viol = s.run()
	})
	if pan != nil {
		panic(fmt.Sprintf("%v\n%s", pan, stack))
	}
	// selftest aid: GWSIM_TRACEDIR=<dir> writes the event trace of every run to <dir>/<seed>-<run>.log
	if dir := os.Getenv("GWSIM_TRACEDIR"); dir != "" {
		_ = os.WriteFile(filepath.Join(dir, fmt.Sprintf("%d-%d.log", r.Seed, r.Index)), []byte(strings.Join(r.Trace, "\n")+"\n"), 0o644)
	}
	return viol
}

func (Engine) Describe(property string) core.Description {
	d := core.Description{
		Rule: "Each run boots a fresh chain (real AkashApp over MemDB; 3-9 accounts) and, inside one synctest bubble (fake clock from 2000-01-01), the provider gateway exactly as " +
			"rest.NewServer builds it (gwutils.NewServerTLSConfig + VerifyPeerCertificate, mux router, requireOwner/requireLeaseID/requireDeploymentID middleware) serving TLS 1.3 over in-memory pipes with socket-like buffers. " +
			"15-40 operations are drawn: register a certificate for an account with a real MsgCreateCertificate transaction (ECDSA P-256 like the akash client, or ed25519; serials 1,0,255,256,2^63-1,2^64,2^159..; " +
			"eleven validity windows relative to the bubble clock (four of them 5 s / 90 s from a boundary); five extended-key-usage variants), revoke one with MsgRevokeCertificate, jump the clock (1s..400d), or open a connection with a drawn credential " +
			"(genuine, forged = attacker key + copied CN/issuer/serial, revoked, never registered, expired / not yet valid by dates or by clock jump, wrong usage, two-certificate chain, none; optionally resuming a " +
			"TLS session with a ticket collected earlier with that certificate; optionally a leaf naming the victim but issued by the attacker's own CA) under a drawn chain-query fault (error, hang then error, " +
			"hang then late answer), optionally preceded by a handshake on which the client vanishes, and send 1-3 requests on it; or let two clients overlap (the first one's handshake waits 3 s of bubble time for a truthful chain answer while the second one completes a handshake and a request, then the first one's answer arrives and it sends its request; each is judged by itself) (first a well-formed lease/deployment request as authentication " +
			"probe, then requests with hostile path, query, header and number material). After every request the recording back-end stubs are inspected: (a) an owner-scoped call implies that the presented leaf is " +
			"byte-identical to a certificate the harness registered for that CN+serial, unrevoked by the harness' own model, inside its validity window at bubble time, allows client authentication, was presented " +
			"alone, and that the chain query of that handshake was not faulted; (b) every id handed to a stub names the authenticated account and this provider. " +
			"Layer 2 (binary built with provider/gateway/rest/middleware.go rewritten so that every statement is a scheduling point): the operation 'concurrent requests' lets 2-3 accounts, each authenticated on its own " +
			"connection, send one lease request at the same time; their handler goroutines are parked in front of every middleware statement and released one at a time as the choice stream decides, " +
			"and the owner handed to the back end for each request (recognised by a dseq only that request names) must be the account authenticated on that connection.",
		Real: []string{"provider/gateway/utils.NewServerTLSConfig (VerifyPeerCertificate)", "provider/gateway/rest.NewServer, newRouter, middleware, path parsing, handlers",
			"crypto/tls 1.3 server+client, crypto/x509, net/http server+transport, gorilla/mux, gorilla/websocket upgrade", "x/cert gRPC querier (keeper.Querier().Certificates) on committed state",
			"x/cert msg server via signed MsgCreateCertificate/MsgRevokeCertificate through baseapp DeliverTx", "app.AkashApp over MemDB (chainsim.World)",
			"x/market/query.ParseLeasePath, x/deployment/types.ParseDeploymentPath"},
		Stub: []string{"provider.Client (manifest + cluster + status/validate): recording stubs answering from a fixed lease table", "network: one buffered in-memory pipe per connection (net.Pipe semantics plus send buffers), no real sockets",
			"gRPC transport between gateway and node: direct call adapter with injected error / hang", "clock: synctest fake clock",
			"kubeevents/logs websocket streams end after the first close frame (stub reports no lease / no pods); shell stops at IsActive=false"},
		Assumptions: []string{
			"a certificate without any extended-key-usage extension is unrestricted (RFC 5280) and is not counted as wrong usage; wrong usage = EKU present without clientAuth/any",
			"the gateway queries committed chain state; connections are not interleaved with an open block",
			"acceptance is observed at the back-end boundary (owner-scoped stub reached); a route that fails earlier (404/400/401) is not an acceptance",
			"only the stated direction is checked (accepted => genuine); that genuine clients are accepted is a reach probe, not an obligation",
			"authentication is judged per TLS handshake; a connection kept open across a revocation or expiry is not exercised (connections are closed at the end of each operation)",
			"two handshakes overlap only in the 'overlapping handshakes' operation (one waits for a slow chain answer while another client completes a handshake and a request; the order is fixed by the bubble clock); handshakes racing each other statement by statement are not explored; concurrent requests (Layer 2) use connections established one after the other; sampling: held on everything explored, not a proof"},
		RequiredProbes: []string{"probe:genuine-accepted", "probe:forged-presented", "probe:revoked-presented", "probe:expired-by-clock-jump", "probe:not-yet-valid-presented",
			"probe:chain-presented", "probe:wrong-usage-presented", "probe:hostile-path", "probe:backend-reached", "fault:chain-query-error",
			"fault:chain-query-slow", "probe:foreign-issuer-presented", "probe:reconnect-with-session-cache"},
	}
	if layer2() {
		d.RequiredProbes = append(d.RequiredProbes, "probe:concurrent-requests-completed")
	}
	d.QuickRuns, d.ThoroughRuns, d.QuickBudgetS, d.ThoroughBudget = 1200, 80000, 90, 780
	d.Extra = map[string]interface{}{"engine_knobs": "-cfg noforged=1 (no forged credentials), noissuer=1 (no attacker-CA issued leaves), noresume=1 (clients keep no TLS session tickets); " +
		"GWSIM_TRACEDIR=<dir> dumps every run's trace (selftest aid)", "layer2": layer2(), "layer2_unavailable_reason": os.Getenv("VERIF_LAYER2_REASON")}
	d.SimTimeUnit = "ms"
	return d
}
