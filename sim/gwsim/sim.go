package gwsim

import (
	gcontext "github.com/gorilla/context"
	"context"
	"crypto/tls"
	"fmt"
	"log"
	"math/big"
	"net/http"
	"strings"
	"testing/synctest"
	"time"

	sdk "github.com/cosmos/cosmos-sdk/types"
	tmlog "github.com/tendermint/tendermint/libs/log"

	"github.com/ovrclk/akash/provider/gateway/rest"
	ctypes "github.com/ovrclk/akash/x/cert/types"

	"verifsim/chainsim"
	"verifsim/core"
)

type sim struct {
	r *core.Run
	w *chainsim.World

	actors        []*chainsim.Actor
	provider      *chainsim.Actor // the provider whose gateway is under test
	otherProvider *chainsim.Actor // some other address used as "?provider=" bait

	regs  []*reg // successful registrations, in order
	byKey map[string]*reg
	nonce int

	leasesOf map[string][]lease

	be     *backend
	cq     *chainQuery
	srv    *http.Server
	ln     *pipeListener
	srvLog *captureLog
	served chan struct{}

	began    time.Time
	noForged bool
	noResume bool
	noIssuer bool
	connSeq  int
}

func newSim(r *core.Run, w *chainsim.World) *sim {
	s := &sim{r: r, w: w, byKey: map[string]*reg{}, leasesOf: map[string][]lease{}, srvLog: &captureLog{}}
	s.noForged = r.Cfgs("noforged", "") == "1"
	s.noResume = r.Cfgs("noresume", "") == "1"
	s.noIssuer = r.Cfgs("noissuer", "") == "1"
	s.actors = w.Actors
	s.provider = w.ActorsOf("provider")[0]
	for i := len(s.actors) - 1; i >= 0; i-- {
		if s.actors[i] != s.provider {
			s.otherProvider = s.actors[i]
			break
		}
	}
	for _, a := range w.ActorsOf("provider") {
		if a != s.provider {
			s.otherProvider = a
			break
		}
	}
	return s
}

// start builds the lease table and boots the gateway.  Must run inside the bubble.
func (s *sim) start(ctx context.Context) {
	r := s.r
	s.began = time.Now()
	s.be = newBackend(s.provider.Bech)
	s.cq = newChainQuery(s.w)

	// lease table of this provider: which (owner, dseq, gseq, oseq) it serves.  Identical ids under
	// different owners are deliberately common - the URL carries no owner.
	desc := []string{}
	for _, a := range s.actors {
		n := r.Weighted([]int{3, 2, 3}, "lease.n")
		if a.Role == "tenant" {
			n = 1 + r.Choose(2, "lease.n.tenant")
		}
		for i := 0; i < n; i++ {
			l := lease{owner: a.Bech, dseq: 1, gseq: 1, oseq: 1}
			if i > 0 || r.Bool(40, "lease.other") {
				l.dseq = dseqPool[r.Choose(len(dseqPool), "lease.dseq")]
				l.gseq = uint32(1 + r.Choose(2, "lease.gseq"))
				l.oseq = uint32(1 + r.Choose(2, "lease.oseq"))
			}
			if s.be.leases[l] {
				continue
			}
			s.be.leases[l] = true
			s.leasesOf[a.Bech] = append(s.leasesOf[a.Bech], l)
			desc = append(desc, fmt.Sprintf("%s:%d/%d/%d", a.Name, l.dseq, l.gseq, l.oseq))
		}
	}
	r.Logf("gateway of %s; leases: %s", s.provider.Name, strings.Join(desc, " "))

	srv, err := rest.NewServer(ctx, tmlog.NewNopLogger(), s.be, s.cq, "gateway:8443", s.provider.Addr, []tls.Certificate{gatewayCert("gateway")})
	if err != nil {
		panic("gwsim: rest.NewServer: " + err.Error())
	}
	srv.ErrorLog = log.New(s.srvLog, "", 0)
	s.srv = srv
	s.ln = newPipeListener()
	s.served = make(chan struct{})
	go func() {
		defer close(s.served)
		_ = srv.ServeTLS(s.ln, "", "")
	}()
}

func (s *sim) shutdown() {
	if s.cq != nil {
		s.cq.shutdown()
	}
	if s.srv != nil {
		_ = s.srv.Close()
		<-s.served
	}
	synctest.Wait()
	// the gateway keeps per-request values in gorilla/context's process-wide map and never clears it
	// (mux >= 1.6.1 no longer does): every authenticated request, with its connection and through the
	// server's handler this run's whole chain, would stay reachable for the life of the worker
	gcontext.Purge(0)
	s.r.SimTime = int64(time.Since(s.began) / time.Millisecond)
}

func (s *sim) name(bech string) string {
	if a := s.w.ActorByAddr(bech); a != nil {
		return a.Name
	}
	if bech == "" {
		return "-"
	}
	return bech
}

func (s *sim) clock() string {
	return time.Now().UTC().Format("2006-01-02T15:04:05")
}

func (s *sim) abstractState() string {
	valid, revoked, off := 0, 0, 0
	now := time.Now()
	for _, g := range s.regs {
		switch {
		case g.revoked:
			revoked++
		case !g.inWindow(now, now):
			off++
		default:
			valid++
		}
	}
	return fmt.Sprintf("v%d r%d o%d", valid, revoked, off)
}

var jumps = []time.Duration{time.Second, time.Minute, 45 * time.Minute, 3 * time.Hour, 25 * time.Hour, 8 * 24 * time.Hour, 400 * 24 * time.Hour}

func (s *sim) run() *core.Violation {
	r := s.r
	nops := 15 + r.Choose(26, "knob.nops")
	for i := 0; i < nops; i++ {
		r.Mark()
		skip := r.Switch("skip.op")
		wReg, wRev, wJump, wConn := 20, 9, 9, 62
		if len(s.regs) < 2 {
			wReg = 60
		}
		if len(s.regs) == 0 {
			wRev = 0
		}
		wConc := 0
		if layer2() && len(s.regs) >= 2 {
			wConc = 14
		}
		wOver := 0
		if len(s.regs) >= 2 {
			wOver = 9
		}
		var v *core.Violation
		switch r.Weighted([]int{wConn, wReg, wRev, wJump, wConc, wOver}, "op") {
		case 0:
			v = s.opConnect(skip)
		case 1:
			s.opRegister(skip)
		case 2:
			s.opRevoke(skip)
		case 3:
			s.opJump(skip)
		case 4:
			v = s.opConcurrent(skip)
		case 5:
			v = s.opOverlap(skip)
		}
		if v != nil {
			return v
		}
	}
	return nil
}

// ------------------------------------------------------------------ chain operations

func (s *sim) deliver(msg sdk.Msg, signer *chainsim.Actor) (ok bool, outcome string) {
	w := s.w
	w.BeginBlock(6 * time.Second)
	txb, err := w.SignTx([]sdk.Msg{msg}, signer, w.Sequence(signer), 2000000)
	if err != nil {
		w.EndBlock()
		return false, "unsignable: " + err.Error()
	}
	res := w.Deliver(txb)[0]
	w.EndBlock()
	if res.Code != 0 {
		l := res.Log
		if len(l) > 60 {
			l = l[:60]
		}
		return false, fmt.Sprintf("%s/%d (%s)", res.Codespace, res.Code, l)
	}
	return true, "ok"
}

func (s *sim) opRegister(skip bool) {
	r := s.r
	owner := s.actors[r.Choose(len(s.actors), "reg.owner")]
	serial := serialPool[r.Choose(len(serialPool), "reg.serial")]
	win := windows[r.Weighted([]int{8, 4, 3, 2, 2, 1, 2, 2, 2, 2, 2}, "reg.window")]
	eku := r.Weighted([]int{10, 3, 3, 1, 2}, "reg.eku")
	alg := r.Weighted([]int{5, 1}, "reg.alg")
	firstCN := ""
	if r.Bool(8, "reg.double-cn") {
		if v := s.victimOf(owner); v != owner {
			firstCN = v.Bech // two commonName attributes: the victim's first, the owner's own last
		}
	}
	if skip {
		return
	}
	r.Step++
	r.Ops++
	r.Count("op:register")
	now := time.Now()
	key := newKey(alg)
	der, cert := makeCert(certSpec{cn: owner.Bech, serial: serial, nbf: now.Add(win.nbf), naf: now.Add(win.naf), eku: eku, firstCN: firstCN}, key)
	if firstCN != "" {
		if cert.Subject.CommonName != owner.Bech {
			panic("gwsim: a subject with two commonName attributes must parse to the last one")
		}
		r.Count("probe:double-cn-certificate")
	}
	msg := &ctypes.MsgCreateCertificate{Owner: owner.Bech, Cert: certPEM(der), Pubkey: pubPEM(key)}
	ok, outcome := s.deliver(msg, owner)
	idx := -1
	if ok {
		if old := s.byKey[regKey(owner.Bech, serial)]; old != nil {
			// the chain accepted a second certificate under the same owner+serial (C17's business): the
			// store now holds the new one, so the old record is dead for the harness as well
			old.revoked = true
			r.Count("probe:duplicate-registration-accepted")
		}
		{
			g := &reg{idx: len(s.regs), owner: owner, serial: serial, der: der, cert: cert, key: key, created: now, eku: eku, win: win.name}
			if !s.noResume {
				g.cache = newSessionCache()
			}
			s.regs = append(s.regs, g)
			s.byKey[regKey(owner.Bech, serial)] = g
			idx = g.idx
			r.Mutating++
			r.Count("probe:cert-registered")
		}
	} else {
		r.Count("probe:registration-rejected")
	}
	r.Logf("%s h=%d register cert#%d owner=%s serial=%s window=%s eku=%s key=%s%s -> %s", s.clock(), s.w.Height, idx, owner.Name, serial, win.name, ekuNames[eku], algNames[alg],
		tern(firstCN != "", " subject=CN="+s.name(firstCN)+",CN="+owner.Name, ""), outcome)
	r.Abstract("register|" + fmt.Sprint(ok) + "|" + s.abstractState())
}

func (s *sim) opRevoke(skip bool) {
	r := s.r
	if len(s.regs) == 0 {
		return
	}
	cands := s.prefer(func(g *reg) bool { return !g.revoked }, 80, "rev.pref")
	g := cands[r.Choose(len(cands), "rev.which")]
	if skip {
		return
	}
	r.Step++
	r.Ops++
	r.Count("op:revoke")
	msg := &ctypes.MsgRevokeCertificate{ID: ctypes.CertificateID{Owner: g.owner.Bech, Serial: g.serial.String()}}
	ok, outcome := s.deliver(msg, g.owner)
	if ok {
		if g.revoked {
			r.Count("probe:revoked-twice-accepted")
		}
		g.revoked = true
		r.Mutating++
		r.Count("probe:cert-revoked")
	}
	r.Logf("%s h=%d revoke cert#%d owner=%s serial=%s -> %s", s.clock(), s.w.Height, g.idx, g.owner.Name, g.serial, outcome)
	r.Abstract("revoke|" + fmt.Sprint(ok) + "|" + s.abstractState())
}

func (s *sim) opJump(skip bool) {
	r := s.r
	d := jumps[r.Choose(len(jumps), "jump.d")]
	if skip {
		return
	}
	r.Step++
	r.Ops++
	r.Mutating++
	r.Count("op:clock-jump")
	time.Sleep(d)
	r.Logf("%s clock jumped by %s", s.clock(), d)
	r.Abstract("jump|" + d.String() + "|" + s.abstractState())
}

// prefer returns the registrations satisfying want with probability pct (when there are any),
// otherwise all registrations.
func (s *sim) prefer(want func(*reg) bool, pct int, label string) []*reg {
	var sel []*reg
	for _, g := range s.regs {
		if want(g) {
			sel = append(sel, g)
		}
	}
	if len(sel) > 0 && s.r.Bool(pct, label) {
		return sel
	}
	return s.regs
}

// unusedSerial returns a serial the harness has not registered for owner, starting the search at a
// drawn position of the pool (so serials registered by OTHER accounts are likely picks).
func (s *sim) unusedSerial(owner *chainsim.Actor) *big.Int {
	start := s.r.Choose(len(serialPool), "cred.unknown.serial")
	for i := 0; i < len(serialPool); i++ {
		c := serialPool[(start+i)%len(serialPool)]
		if s.byKey[regKey(owner.Bech, c)] == nil {
			return c
		}
	}
	s.nonce++
	return new(big.Int).Add(new(big.Int).Exp(big.NewInt(10), big.NewInt(30), nil), big.NewInt(int64(s.nonce)))
}
