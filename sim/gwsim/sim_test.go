package gwsim

import (
	"testing"

	"verifsim/core"
)

// TestSim is the entry point of the gwsim binary (a test binary, because testing/synctest needs a
// *testing.T); core.Main parses the harness flags, runs workers and exits the process.
func TestSim(t *testing.T) { core.Main(Engine{T: t}) }
