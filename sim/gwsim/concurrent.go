package gwsim

import (
	"fmt"
	"net/http"
	"os"
	"testing/synctest"
	"time"

	"verifsim/core"
	"verifsim/simrt"
)

// layer2 reports whether this binary was built with the instrumented request path (every statement of
// provider/gateway/rest/middleware.go is a scheduling point) - see ./check, engine gwsim.
func layer2() bool { return os.Getenv("VERIF_LAYER2") == "1" }

// opConcurrent: two or three accounts, each authenticated with its own genuine certificate over its own
// established connection, send one lease-scoped request at the same time.  The requests' handler
// goroutines park in front of every statement of the gateway's middleware; which of them proceeds is
// drawn from the choice stream, so every interleaving of the request-scoping code is reachable and
// replays exactly.  Oracle: whatever reaches the back end for request i (recognised by the dseq only
// that request names) carries the owner authenticated on connection i.
func (s *sim) opConcurrent(skip bool) *core.Violation {
	r := s.r
	now := time.Now()
	var cands []*reg
	seen := map[string]bool{}
	for _, g := range s.regs {
		if g.usable(now) && !seen[g.owner.Bech] {
			seen[g.owner.Bech] = true
			cands = append(cands, g)
		}
	}
	if len(cands) < 2 {
		return nil
	}
	k := 2
	if len(cands) > 2 && r.Bool(40, "cc.three") {
		k = 3
	}
	perm := r.Permute(len(cands), "cc.who")
	if skip {
		return nil
	}
	r.Step++
	r.Ops++
	r.Count("op:concurrent-requests")
	s.cq.setMode(qOK, 0)
	type party struct {
		g      *reg
		cl     *client
		tr     *http.Transport
		hc     *http.Client
		dseq   uint64
		status int
		done   bool
	}
	var ps []*party
	for i := 0; i < k; i++ {
		g := cands[perm[i]]
		p := &party{g: g, dseq: uint64(5000 + i)}
		p.cl = &client{s: s, cr: s.genuineCred(ckGenuine, g, false)(), plan: &connPlan{abort: -1}}
		p.tr = &http.Transport{DialTLSContext: p.cl.dial, DisableCompression: true, MaxIdleConnsPerHost: 1}
		p.hc = &http.Client{Transport: p.tr, Timeout: 10 * time.Second, CheckRedirect: func(*http.Request, []*http.Request) error { return http.ErrUseLastResponse }}
		ps = append(ps, p)
	}
	defer func() {
		for _, p := range ps {
			p.tr.CloseIdleConnections()
			p.cl.closeAll()
		}
		synctest.Wait()
		_, _, _ = s.be.take(), s.cq.take(), s.srvLog.take()
	}()
	// authenticate each connection with one ordinary request, one after the other
	names := ""
	for _, p := range ps {
		st := p.cl.do(p.hc, reqSpec{route: rtLeaseStatus, method: "GET", raw: "/lease/1/1/1/status"})
		synctest.Wait()
		for s.cq.busy() {
			time.Sleep(time.Second)
			synctest.Wait()
		}
		names += fmt.Sprintf(" %s(cert#%d,warm-up=%d)", p.g.owner.Name, p.g.idx, st)
		if st == 0 {
			r.Logf("%s concurrent requests: warm-up of %s got no response, skipped", s.clock(), p.g.owner.Name)
			return nil
		}
	}
	_, _, _ = s.be.take(), s.cq.take(), s.srvLog.take()
	r.Logf("%s concurrent requests by%s", s.clock(), names)

	simrt.Enable(r)
	released := false
	defer func() {
		if !released {
			simrt.ReleaseAll()
		}
	}()
	for _, p := range ps {
		p := p
		go func() {
			p.status = p.cl.do(p.hc, reqSpec{route: rtLeaseStatus, method: "GET", raw: fmt.Sprintf("/lease/%d/1/1/status", p.dseq)})
			p.done = true
		}()
		synctest.Wait() // its handler is parked at the first statement of the middleware chain
	}
	steps, idle := 0, 0
	for {
		synctest.Wait()
		rs := simrt.Runnable()
		if len(rs) == 0 {
			all := true
			for _, p := range ps {
				all = all && p.done
			}
			if all {
				break
			}
			idle++
			if idle > 30 {
				panic("gwsim: concurrent requests neither finish nor park")
			}
			time.Sleep(time.Second)
			continue
		}
		steps++
		if steps > 5000 {
			panic("gwsim: concurrent requests: step budget exceeded")
		}
		simrt.Resume(rs[r.Choose(len(rs), "cc.sched")])
	}
	simrt.ReleaseAll()
	released = true
	synctest.Wait()
	r.Count("probe:concurrent-requests-completed")
	r.Counters["probe:concurrent-scheduling-points"] += int64(steps)
	calls := s.be.take()
	for _, c := range calls {
		if !c.Scoped {
			continue
		}
		for _, p := range ps {
			if c.DSeq != p.dseq {
				continue
			}
			r.Logf("   %s: request for dseq %d (status %d) reached the back end as %s", p.g.owner.Name, p.dseq, p.status, s.showCall(c))
			if c.Owner != p.g.owner.Bech {
				return r.Flag("C09/request-scoped-to-foreign-owner-concurrent", "%s (authenticated with cert#%d) asked for lease dseq=%d while %d other authenticated requests were in flight; the back end was called for owner %s: %s",
					p.g.owner.Name, p.g.idx, p.dseq, k-1, s.name(c.Owner), s.showCall(c))
			}
			if c.HasProv && c.Provider != s.provider.Bech {
				return r.Flag("C09/request-scoped-to-foreign-provider-concurrent", "%s asked for lease dseq=%d; the back end was called for provider %s", p.g.owner.Name, p.dseq, s.name(c.Provider))
			}
		}
	}
	r.Abstract(fmt.Sprintf("concurrent|%d|%d", k, steps))
	return nil
}
