package gwsim

import (
	"bytes"
	"context"
	"crypto"
	"crypto/rand"
	"crypto/tls"
	"crypto/x509"
	"crypto/x509/pkix"
	"errors"
	"fmt"
	"io"
	"math/big"
	"net"
	"net/http"
	"net/url"
	"strings"
	"testing/synctest"
	"time"

	"verifsim/chainsim"
	"verifsim/core"
)

func newSessionCache() tls.ClientSessionCache { return tls.NewLRUClientSessionCache(4) }

// cred is what a client puts into tls.Config.Certificates.
type cred struct {
	kind  string
	desc  string
	chain [][]byte
	key   crypto.Signer
	leaf  *x509.Certificate
	cache tls.ClientSessionCache
}

// credential kinds (index 0 = simplest)
const (
	ckGenuine = iota
	ckForged
	ckRevoked
	ckUnknown
	ckOffWindow
	ckWrongUsage
	ckChain
	ckNoCert
	ckForeignIssuer
)

var ckNames = []string{"genuine", "forged", "revoked", "unknown", "off-window", "wrong-usage", "chain", "no-cert", "foreign-issuer"}

// classify is the harness' own verdict on a presented credential, decided from its registry of
// successful create/revoke transactions and the bubble clock - never by asking the code under test.
func (s *sim) classify(cr *cred, t0, t1 time.Time) (class string, g *reg) {
	if len(cr.chain) == 0 {
		return "no-cert", nil
	}
	if len(cr.chain) != 1 {
		return "chain", nil
	}
	if cr.leaf.Issuer.CommonName != cr.leaf.Subject.CommonName {
		return "foreign-issuer", nil
	}
	g = s.byKey[regKey(cr.leaf.Subject.CommonName, cr.leaf.SerialNumber)]
	switch {
	case g == nil:
		return "unknown", nil
	case !bytes.Equal(g.der, cr.chain[0]):
		return "forged", g
	case g.revoked:
		return "revoked", g
	case t0.After(g.cert.NotAfter):
		return "expired", g
	case t1.Before(g.cert.NotBefore):
		return "not-yet-valid", g
	case !allowsClientAuth(g.cert):
		return "wrong-usage", g
	}
	return "genuine", g
}

func (s *sim) genuineCred(kind int, g *reg, resume bool) func() *cred {
	return func() *cred {
		c := &cred{kind: ckNames[kind], chain: [][]byte{g.der}, key: g.key, leaf: g.cert, desc: fmt.Sprintf("cert#%d of %s serial=%s", g.idx, g.owner.Name, g.serial)}
		if resume && g.cache != nil {
			c.cache = g.cache
			c.desc += " +session-cache"
			if g.cacheUses > 0 {
				// whether a session is then resumed is the gateway's decision (it is not, since tickets
				// are disabled - fix 723f247); what the harness owes is the reconnecting client
				s.r.Count("probe:reconnect-with-session-cache")
			}
			g.cacheUses++
		}
		return c
	}
}

func (s *sim) forge(g *reg, freshDates bool, alg int) (der []byte, leaf *x509.Certificate, key crypto.Signer) {
	key = newKey(alg)
	sp := certSpec{cn: g.owner.Bech, serial: g.serial, nbf: g.cert.NotBefore, naf: g.cert.NotAfter, eku: ekuClient}
	if freshDates {
		now := time.Now()
		sp.nbf, sp.naf = now.Add(-time.Hour), now.Add(365*24*time.Hour)
	}
	der, leaf = makeCert(sp, key)
	return
}

// issuedBy builds a leaf naming cn that is signed by a separate issuer (the attacker's own CA).
func issuedBy(cn, issuerCN string, serial *big.Int, now time.Time) (der []byte, leaf *x509.Certificate, key crypto.Signer) {
	caKey := newKey(algECDSA)
	ca := x509.Certificate{SerialNumber: big.NewInt(7), Subject: pkix.Name{CommonName: issuerCN}, NotBefore: now.Add(-time.Hour), NotAfter: now.Add(24 * time.Hour),
		KeyUsage: x509.KeyUsageCertSign, IsCA: true, BasicConstraintsValid: true}
	caDER, err := x509.CreateCertificate(rand.Reader, &ca, &ca, caKey.Public(), caKey)
	if err != nil {
		panic(err)
	}
	caCert, err := x509.ParseCertificate(caDER)
	if err != nil {
		panic(err)
	}
	key = newKey(algECDSA)
	tmpl := x509.Certificate{SerialNumber: serial, Subject: pkix.Name{CommonName: cn}, NotBefore: now.Add(-time.Hour), NotAfter: now.Add(24 * time.Hour),
		KeyUsage: x509.KeyUsageDigitalSignature, ExtKeyUsage: []x509.ExtKeyUsage{x509.ExtKeyUsageClientAuth}, BasicConstraintsValid: true}
	der, err = x509.CreateCertificate(rand.Reader, &tmpl, caCert, key.Public(), caKey)
	if err != nil {
		panic(err)
	}
	leaf, err = x509.ParseCertificate(der)
	if err != nil {
		panic(err)
	}
	return
}

type connPlan struct {
	kind  int
	build func() *cred
	qmode int
	delay time.Duration
	abort int // hang up at this write (-1: never)
	tls12 bool
	reqs  []reqSpec
	whoCN *chainsim.Actor
}

var slowDelays = []time.Duration{3 * time.Second, 30 * time.Second, 120 * time.Second}

// planConnect draws everything about one connection.
func (s *sim) planConnect() *connPlan {
	r := s.r
	p := &connPlan{abort: -1}
	wk := []int{30, 16, 9, 8, 9, 7, 6, 4, 7}
	if s.noForged {
		wk[ckForged] = 0
	}
	if s.noIssuer {
		wk[ckForeignIssuer] = 0
	}
	p.kind = r.Weighted(wk, "cred.kind")
	if len(s.regs) == 0 && p.kind != ckNoCert && p.kind != ckForeignIssuer {
		p.kind = ckUnknown
	}
	now := time.Now()
	switch p.kind {
	case ckGenuine, ckRevoked, ckOffWindow, ckWrongUsage:
		var want func(*reg) bool
		switch p.kind {
		case ckGenuine:
			want = func(g *reg) bool { return g.usable(now) }
		case ckRevoked:
			want = func(g *reg) bool { return g.revoked }
		case ckOffWindow:
			want = func(g *reg) bool { return !g.revoked && !g.inWindow(now, now) }
		default:
			want = func(g *reg) bool { return !g.revoked && g.inWindow(now, now) && !allowsClientAuth(g.cert) }
		}
		cands := s.prefer(want, 90, "cred.pref")
		g := cands[r.Choose(len(cands), "cred.which")]
		resume := r.Bool(60, "cred.resume")
		p.build = s.genuineCred(p.kind, g, resume)
		p.whoCN = g.owner
	case ckForged:
		cands := s.prefer(func(g *reg) bool { return !g.revoked }, 75, "cred.pref")
		g := cands[r.Choose(len(cands), "cred.which")]
		fresh := r.Bool(50, "cred.forged.freshdates")
		alg := r.Weighted([]int{5, 1}, "cred.forged.alg")
		p.whoCN = g.owner
		p.build = func() *cred {
			der, leaf, key := s.forge(g, fresh, alg)
			return &cred{kind: "forged", chain: [][]byte{der}, key: key, leaf: leaf,
				desc: fmt.Sprintf("attacker key, copies CN/issuer/serial of cert#%d (%s serial=%s)%s", g.idx, g.owner.Name, g.serial, tern(fresh, " fresh dates", " copied dates"))}
		}
	case ckUnknown:
		owner := s.actors[r.Choose(len(s.actors), "cred.unknown.owner")]
		serial := s.unusedSerial(owner)
		p.whoCN = owner
		p.build = func() *cred {
			key := newKey(algECDSA)
			der, leaf := makeCert(certSpec{cn: owner.Bech, serial: serial, nbf: now.Add(-time.Hour), naf: now.Add(365 * 24 * time.Hour), eku: ekuClient}, key)
			return &cred{kind: "unknown", chain: [][]byte{der}, key: key, leaf: leaf, desc: fmt.Sprintf("self-signed for %s, serial=%s never registered by it", owner.Name, serial)}
		}
	case ckChain:
		cands := s.prefer(func(g *reg) bool { return g.usable(now) }, 85, "cred.pref")
		g := cands[r.Choose(len(cands), "cred.which")]
		variant := r.Choose(3, "cred.chain.variant")
		if variant == 2 && s.noForged {
			variant = 0
		}
		extra := s.regs[r.Choose(len(s.regs), "cred.chain.extra")]
		p.whoCN = g.owner
		p.build = func() *cred {
			c := &cred{kind: "chain", key: g.key, leaf: g.cert}
			switch variant {
			case 0:
				c.chain = [][]byte{g.der, extra.der}
				c.desc = fmt.Sprintf("cert#%d of %s followed by cert#%d", g.idx, g.owner.Name, extra.idx)
			case 1:
				c.chain = [][]byte{g.der, g.der}
				c.desc = fmt.Sprintf("cert#%d of %s twice", g.idx, g.owner.Name)
			default:
				der, leaf, key := s.forge(g, true, algECDSA)
				c.chain, c.key, c.leaf = [][]byte{der, g.der}, key, leaf
				c.desc = fmt.Sprintf("forged copy of cert#%d of %s followed by the genuine one", g.idx, g.owner.Name)
			}
			return c
		}
	case ckNoCert:
		p.whoCN = nil
		p.build = func() *cred { return &cred{kind: "no-cert", desc: "no client certificate"} }
	case ckForeignIssuer:
		victim := s.actors[r.Choose(len(s.actors), "cred.issuer.victim")]
		var serial *big.Int
		what := ""
		if g := s.firstRegOf(victim); g != nil && r.Bool(50, "cred.issuer.copyserial") {
			serial, what = g.serial, fmt.Sprintf(" (serial of cert#%d)", g.idx)
		} else {
			serial = s.unusedSerial(victim)
		}
		issuer := "attacker-ca"
		if r.Bool(50, "cred.issuer.bech") {
			issuer = s.victimOf(victim).Bech
		}
		p.whoCN = victim
		p.build = func() *cred {
			der, leaf, key := issuedBy(victim.Bech, issuer, serial, time.Now())
			return &cred{kind: "foreign-issuer", chain: [][]byte{der}, key: key, leaf: leaf,
				desc: fmt.Sprintf("leaf naming %s serial=%s%s issued by the attacker's own CA (issuer CN %s), attacker key", victim.Name, serial, what, s.name(issuer))}
		}
	}

	p.qmode = r.Weighted([]int{84, 8, 4, 4}, "fault.chainquery")
	if p.qmode == qSlowErr || p.qmode == qSlowLate {
		p.delay = slowDelays[r.Choose(len(slowDelays), "fault.chainquery.delay")]
	}
	if r.Bool(4, "fault.clientabort") {
		p.abort = r.Choose(3, "fault.clientabort.at")
	}
	p.tls12 = r.Bool(3, "conn.tls12")
	n := 1 + r.Weighted([]int{5, 3, 2}, "conn.nreq")
	for i := 0; i < n; i++ {
		p.reqs = append(p.reqs, s.genRequest(p.whoCN, i == 0))
	}
	return p
}

func (s *sim) firstRegOf(a *chainsim.Actor) *reg {
	for _, g := range s.regs {
		if g.owner == a {
			return g
		}
	}
	return nil
}

func tern(b bool, x, y string) string {
	if b {
		return x
	}
	return y
}

// client is one simulated TLS client; the transport may dial again (same credential) when the
// gateway closed or hijacked the previous connection.
type client struct {
	s      *sim
	cr     *cred
	plan   *connPlan
	ends   []net.Conn
	tconns []*tls.Conn
	dials  int
}

func (c *client) tlsConfig() *tls.Config {
	cfg := &tls.Config{InsecureSkipVerify: true, ServerName: "gateway", MinVersion: tls.VersionTLS13, ClientSessionCache: c.cr.cache} // nolint: gosec
	if c.plan.tls12 {
		cfg.MinVersion, cfg.MaxVersion = tls.VersionTLS12, tls.VersionTLS12
	}
	if len(c.cr.chain) > 0 {
		cfg.Certificates = []tls.Certificate{{Certificate: c.cr.chain, PrivateKey: c.cr.key, Leaf: c.cr.leaf}}
	}
	return cfg
}

func (c *client) dial(ctx context.Context, _, _ string) (net.Conn, error) {
	c.dials++
	if c.dials > 4 {
		return nil, errors.New("gwsim: too many dials")
	}
	end, err := c.s.ln.connect()
	if err != nil {
		return nil, err
	}
	c.ends = append(c.ends, end)
	tc := tls.Client(end, c.tlsConfig())
	if err := tc.HandshakeContext(ctx); err != nil {
		end.Close()
		return nil, err
	}
	c.tconns = append(c.tconns, tc)
	return tc, nil
}

// abortedHandshake opens a connection on which the client vanishes at its k-th write: before the
// ClientHello (0), after the gateway's flight but before sending its certificate (1), or right after
// its own Finished (2, the gateway may already have accepted).  It runs on the calling goroutine and
// hangs up at a quiescent point, so what the gateway has done by then does not depend on scheduling.
func (c *client) abortedHandshake(k int) (fired bool) {
	end, err := c.s.ln.connect()
	if err != nil {
		return false
	}
	c.ends = append(c.ends, end)
	ac := &abortConn{Conn: end, left: k, fired: &fired}
	cfg := c.tlsConfig()
	cfg.ClientSessionCache = nil
	tc := tls.Client(ac, cfg)
	err = tc.Handshake()
	synctest.Wait()
	if err == nil {
		fired = true // all handshake writes done: hang up without ever sending a request
	}
	end.Close()
	synctest.Wait()
	return fired
}

func (c *client) resumed() bool {
	for _, tc := range c.tconns {
		if tc.ConnectionState().DidResume {
			return true
		}
	}
	return false
}

func (c *client) closeAll() {
	for _, e := range c.ends {
		e.Close()
	}
}

// do sends one request; status 0 means no HTTP response was obtained.
func (c *client) do(hc *http.Client, q reqSpec) int {
	var body io.Reader
	if q.body != "" {
		body = strings.NewReader(q.body)
	}
	req, err := http.NewRequest(q.method, "https://gateway/", body)
	if err != nil {
		panic(err)
	}
	req.URL = &url.URL{Scheme: "https", Host: "gateway", Opaque: q.raw}
	if q.ws {
		req.Header.Set("Connection", "Upgrade")
		req.Header.Set("Upgrade", "websocket")
		req.Header.Set("Sec-WebSocket-Version", "13")
		req.Header.Set("Sec-WebSocket-Key", "dGhlIHNhbXBsZSBub25jZQ==")
	}
	if q.body != "" {
		req.Header.Set("Content-Type", "application/json")
	}
	for _, h := range q.headers {
		req.Header.Set(h[0], h[1])
	}
	resp, err := hc.Do(req)
	if err != nil {
		return 0
	}
	// a 101 body is the hijacked stream: the gateway sends one close frame and hangs up
	_, _ = io.Copy(io.Discard, io.LimitReader(resp.Body, 1<<20))
	resp.Body.Close()
	return resp.StatusCode
}

func (s *sim) opConnect(skip bool) *core.Violation {
	r := s.r
	p := s.planConnect()
	if skip {
		return nil
	}
	r.Step++
	r.Ops++
	r.Count("op:connect")
	s.connSeq++
	cr := p.build()
	r.Count("op:connect:" + cr.kind)

	// what is being presented, by the harness' own model
	now := time.Now()
	class, g := s.classify(cr, now, now)
	switch class {
	case "expired":
		if !g.created.After(g.cert.NotAfter) {
			r.Count("probe:expired-by-clock-jump")
		} else {
			r.Count("probe:expired-by-dates")
		}
		r.Count("probe:expired-presented")
	case "not-yet-valid":
		r.Count("probe:not-yet-valid-presented")
	case "genuine":
		r.Count("probe:genuine-presented")
		if g.created.Before(g.cert.NotBefore) {
			r.Count("probe:valid-by-clock-jump")
		}
		if len(g.cert.ExtKeyUsage) == 0 {
			r.Count("probe:no-eku-presented")
		}
	default:
		r.Count("probe:" + class + "-presented")
	}

	s.cq.setMode(p.qmode, p.delay)
	cl := &client{s: s, cr: cr, plan: p}
	tr := &http.Transport{DialTLSContext: cl.dial, DisableCompression: true, MaxIdleConnsPerHost: 1}
	hc := &http.Client{Transport: tr, Timeout: 10 * time.Second, CheckRedirect: func(*http.Request, []*http.Request) error { return http.ErrUseLastResponse }}
	defer func() {
		tr.CloseIdleConnections()
		cl.closeAll()
		synctest.Wait()
		s.cq.setMode(qOK, 0)
	}()

	r.Logf("%s conn#%d %s [%s] harness-verdict=%s chain-query=%s%s%s", s.clock(), s.connSeq, cr.kind, cr.desc, class, qNames[p.qmode],
		tern(p.delay > 0, " "+p.delay.String(), ""), tern(p.abort >= 0, fmt.Sprintf(" client-aborts-at-write-%d", p.abort), "")+tern(p.tls12, " tls1.2-only", ""))

	reached := false
	anyResp := false
	if p.abort >= 0 {
		// a first connection attempt on which the client vanishes mid-handshake; the requests below
		// then use fresh connections with the same credential
		fired := cl.abortedHandshake(p.abort)
		for s.cq.busy() {
			time.Sleep(time.Second)
			synctest.Wait()
		}
		if fired {
			r.Count("fault:client-abort-handshake")
		}
		calls, qe, slog := s.be.take(), s.cq.take(), s.srvLog.take()
		faulted := s.countQuery(qe, p)
		detail := ""
		for _, l := range slog {
			detail += " gateway-log:\"" + shorten(l, 160) + "\""
		}
		r.Logf("   client vanished at handshake write %d (fired=%v) chain-queries=%d back-end calls=%d%s", p.abort, fired, qe.queries, len(calls), detail)
		t := time.Now()
		if v := s.oracle(cl, cr, reqSpec{raw: "(aborted handshake)"}, calls, t, t, faulted, &reached); v != nil {
			return v
		}
	}
	for i, q := range p.reqs {
		t0 := time.Now()
		status := cl.do(hc, q)
		synctest.Wait()
		for s.cq.busy() {
			time.Sleep(time.Second)
			synctest.Wait()
		}
		t1 := time.Now()
		calls := s.be.take()
		qe := s.cq.take()
		slog := s.srvLog.take()

		r.Count("op:request")
		r.Count("op:request:" + rtNames[q.route])
		if len(q.hostile) > 0 {
			r.Count("probe:hostile-path")
			for _, h := range q.hostile {
				r.Count("probe:hostile:" + strings.SplitN(h, ":", 2)[0])
			}
		}
		if status != 0 {
			anyResp = true
			r.Count(fmt.Sprintf("http:%d", status))
		} else {
			r.Count("http:no-response")
		}
		// the handshake serving this request (if one was needed) had its chain query faulted
		faulted := s.countQuery(qe, p)

		outcome := "no response"
		if status != 0 {
			outcome = fmt.Sprint(status)
		}
		detail := ""
		if len(qe.answers) > 0 {
			detail += " chain:" + strings.Join(qe.answers, ",")
		}
		if qe.errFired > 0 {
			detail += " chain:ERROR"
		}
		if qe.slowFired > 0 {
			detail += " chain:SLOW"
		}
		for _, c := range calls {
			detail += " backend:" + s.showCall(c)
		}
		for _, l := range slog {
			detail += " gateway-log:\"" + shorten(l, 160) + "\""
		}
		if t1.Sub(t0) > 0 {
			detail += fmt.Sprintf(" took=%s", t1.Sub(t0))
		}
		r.Logf("   req %d/%d %s %s%s -> %s%s", i+1, len(p.reqs), q.method, q.raw, tern(q.ws, " (ws upgrade)", ""), outcome, detail)

		if v := s.oracle(cl, cr, q, calls, t0, t1, faulted, &reached); v != nil {
			return v
		}
		// a successful answer to a lease- or deployment-scoped request is an answer about a lease of the
		// authenticated account: the back end must have been asked about one in this very request (an
		// answer produced from anything else - another tenant's earlier request, say - is not scoped)
		if status == 200 && q.ownerScoped() && (q.route == rtLeaseStatus || q.route == rtServiceStatus || q.route == rtManifest) {
			asked := false
			for _, c := range calls {
				if c.Scoped && p.whoCN != nil && c.Owner == p.whoCN.Bech {
					asked = true
				}
			}
			if !asked {
				who := "(no account)"
				if p.whoCN != nil {
					who = p.whoCN.Name
				}
				return r.Flag("C09/answered-without-scoped-backend-call", "%s %s by %s was answered 200 without any back-end call for a lease or deployment of that account in this request (%d calls)", q.method, q.raw, who, len(calls))
			}
		}
	}
	// hang up, let the gateway finish, and look once more
	tr.CloseIdleConnections()
	cl.closeAll()
	synctest.Wait()
	if late := s.be.take(); len(late) > 0 {
		t := time.Now()
		r.Logf("   after hang-up: %d late back-end calls", len(late))
		if v := s.oracle(cl, cr, reqSpec{raw: "(after hang-up)"}, late, t, t, false, &reached); v != nil {
			return v
		}
	}
	_ = s.srvLog.take()
	if cl.resumed() {
		r.Count("probe:session-resumed")
	}
	if reached {
		r.Count("probe:accepted")
		if cl.resumed() {
			r.Count("probe:accepted-on-resumed-session")
		}
	} else if anyResp {
		r.Count("probe:not-accepted-with-response")
	} else {
		r.Count("probe:connection-rejected")
	}
	r.Abstract(fmt.Sprintf("connect|%s/%s/%s/%v/%d|%s", cr.kind, class, qNames[p.qmode], reached, len(p.reqs), s.abstractState()))
	return nil
}

// countQuery books what the chain adapter saw during one step and reports whether a handshake of that
// step had its certificate lookup answered with an (injected) error.
func (s *sim) countQuery(qe qEvents, p *connPlan) (faulted bool) {
	r := s.r
	for k, n := range map[string]int{"fault:chain-query-error": qe.errFired, "fault:chain-query-slow": qe.slowFired,
		"probe:chain-queried": qe.queries, "probe:chain-query-panicked": qe.panicked} {
		if n > 0 {
			r.CountN(k, int64(n))
		}
	}
	return qe.errFired > 0 || (qe.slowFired > 0 && p.qmode == qSlowErr)
}

func shorten(s string, n int) string {
	s = strings.TrimPrefix(s, "http: ")
	if len(s) > n {
		return s[:n] + "..."
	}
	return s
}

func (s *sim) showCall(c call) string {
	if !c.Scoped {
		return c.Method
	}
	out := fmt.Sprintf("%s{owner=%s dseq=%d", c.Method, s.name(c.Owner), c.DSeq)
	if c.HasProv {
		out += fmt.Sprintf(" gseq=%d oseq=%d provider=%s", c.GSeq, c.OSeq, s.name(c.Provider))
	}
	if c.Extra != "" {
		out += " " + c.Extra
	}
	return out + "}"
}

// oracle evaluates C09 on the back-end calls one request caused.
func (s *sim) oracle(cl *client, cr *cred, q reqSpec, calls []call, t0, t1 time.Time, faulted bool, reached *bool) *core.Violation {
	r := s.r
	for _, c := range calls {
		r.Count("probe:backend-call:" + c.Method)
		if !c.Scoped {
			continue
		}
		r.Count("probe:backend-reached")
		first := !*reached
		*reached = true

		// (a) the gateway executed an owner-scoped request, i.e. it treats this client as account CN
		class, g := s.classify(cr, t0, t1)
		resumed := cl.resumed()
		sfx, how := "", ""
		if resumed {
			sfx, how = "-on-resumed-session", " (TLS session resumed with a ticket from an earlier connection; no certificate check ran)"
		}
		what := fmt.Sprintf("%s %s reached %s", q.method, q.raw, s.showCall(c))
		if first {
			var v *core.Violation
			switch class {
			case "genuine":
				r.Count("probe:genuine-accepted")
				if resumed {
					r.Count("probe:genuine-accepted-resumed")
				}
			case "no-cert":
				v = r.Flag("C09/no-cert-accepted", "a client without certificate was served an owner-scoped request: %s", what)
			case "chain":
				v = r.Flag("C09/chain-accepted", "a client presenting %d certificates (%s) was accepted: %s", len(cr.chain), cr.desc, what)
			case "foreign-issuer":
				v = r.Flag("C09/foreign-issuer-cert-accepted"+sfx, "accepted as %s with a certificate not issued by that account: %s%s; %s", s.name(cr.leaf.Subject.CommonName), cr.desc, how, what)
			case "unknown":
				v = r.Flag("C09/unknown-cert-accepted"+sfx, "accepted as %s with a certificate that account never registered: %s%s; %s", s.name(cr.leaf.Subject.CommonName), cr.desc, how, what)
			case "forged":
				v = r.Flag("C09/forged-cert-accepted"+sfx, "accepted as %s with a certificate that is not the registered one (different key and bytes; %s)%s; %s",
					g.owner.Name, cr.desc, how, what)
			case "revoked":
				v = r.Flag("C09/revoked-cert-accepted"+sfx, "accepted as %s with revoked cert#%d serial=%s%s; %s", g.owner.Name, g.idx, g.serial, how, what)
			case "expired":
				v = r.Flag("C09/expired-cert-accepted"+sfx, "accepted as %s with cert#%d that expired %s, clock %s%s; %s", g.owner.Name, g.idx, g.cert.NotAfter.Format(time.RFC3339), s.clock(), how, what)
			case "not-yet-valid":
				v = r.Flag("C09/not-yet-valid-accepted"+sfx, "accepted as %s with cert#%d valid only from %s, clock %s%s; %s", g.owner.Name, g.idx, g.cert.NotBefore.Format(time.RFC3339), s.clock(), how, what)
			case "wrong-usage":
				v = r.Flag("C09/wrong-usage-accepted"+sfx, "accepted as %s with cert#%d whose extended key usage (%s) excludes client authentication%s; %s", g.owner.Name, g.idx, ekuNames[g.eku], how, what)
			}
			if v != nil {
				return v
			}
			if class == "genuine" && faulted {
				if v := r.Flag("C09/accepted-despite-query-fault", "accepted as %s although the chain query of this handshake failed; %s", g.owner.Name, what); v != nil {
					return v
				}
			}
		}

		// (b) whatever the URL contained, the id names the authenticated account and this provider
		authed := ""
		if cr.leaf != nil {
			authed = cr.leaf.Subject.CommonName
		}
		if c.Owner != authed {
			if v := r.Flag("C09/request-scoped-to-foreign-owner", "client authenticated as %s; %s %s was executed against owner %s: %s", s.name(authed), q.method, q.raw, s.name(c.Owner), s.showCall(c)); v != nil {
				return v
			}
		}
		if c.HasProv && c.Provider != s.provider.Bech {
			if v := r.Flag("C09/request-scoped-to-foreign-provider", "%s %s was executed against provider %s (this gateway is %s): %s", q.method, q.raw, s.name(c.Provider), s.provider.Name, s.showCall(c)); v != nil {
				return v
			}
		}
	}
	return nil
}
