package gwsim

import (
	"context"
	"fmt"
	"sync"
	"time"

	sdk "github.com/cosmos/cosmos-sdk/types"
	"google.golang.org/grpc"
	"google.golang.org/grpc/codes"
	"google.golang.org/grpc/status"

	ckeeper "github.com/ovrclk/akash/x/cert/keeper"
	ctypes "github.com/ovrclk/akash/x/cert/types"

	"verifsim/chainsim"
)

// chain-query fault modes of one connection
const (
	qOK       = iota
	qError    // the node answers with an error
	qSlowErr  // the node does not answer for `delay`, then the call fails (deadline)
	qSlowLate // the node answers truthfully, but only after `delay`
)

var qNames = []string{"ok", "error", "slow-then-error", "slow-then-answer"}

// chainQuery is the ctypes.QueryClient the gateway is given: an adapter onto the REAL x/cert gRPC
// querier reading the committed state of the simulated chain, plus fault injection.
type chainQuery struct {
	w *chainsim.World

	mu       sync.Mutex
	mode     int
	delay    time.Duration
	closed   chan struct{}
	inflight int
	// what happened since the last take()
	ev qEvents
}

type qEvents struct {
	queries   int
	errFired  int
	slowFired int
	panicked  int
	answers   []string // "owner-name/serial -> n certs" (deterministic)
}

var _ ctypes.QueryClient = (*chainQuery)(nil)

func newChainQuery(w *chainsim.World) *chainQuery {
	return &chainQuery{w: w, closed: make(chan struct{})}
}

func (c *chainQuery) setMode(mode int, delay time.Duration) {
	c.mu.Lock()
	c.mode, c.delay = mode, delay
	c.mu.Unlock()
}

func (c *chainQuery) take() qEvents {
	c.mu.Lock()
	defer c.mu.Unlock()
	e := c.ev
	c.ev = qEvents{}
	return e
}

func (c *chainQuery) busy() bool {
	c.mu.Lock()
	defer c.mu.Unlock()
	return c.inflight > 0
}

func (c *chainQuery) shutdown() { close(c.closed) }

func (c *chainQuery) Certificates(ctx context.Context, req *ctypes.QueryCertificatesRequest, _ ...grpc.CallOption) (resp *ctypes.QueryCertificatesResponse, err error) {
	c.mu.Lock()
	mode, delay := c.mode, c.delay
	c.ev.queries++
	c.inflight++
	c.mu.Unlock()
	defer func() {
		c.mu.Lock()
		c.inflight--
		c.mu.Unlock()
	}()

	switch mode {
	case qError:
		c.mu.Lock()
		c.ev.errFired++
		c.mu.Unlock()
		return nil, status.Error(codes.Unavailable, "gwsim: injected chain query failure")
	case qSlowErr, qSlowLate:
		c.mu.Lock()
		c.ev.slowFired++
		c.mu.Unlock()
		tm := time.NewTimer(delay)
		select {
		case <-tm.C:
		case <-ctx.Done():
			tm.Stop()
			return nil, status.FromContextError(ctx.Err()).Err()
		case <-c.closed:
			tm.Stop()
			return nil, status.Error(codes.Canceled, "gwsim: shutting down")
		}
		if mode == qSlowErr {
			return nil, status.Error(codes.DeadlineExceeded, "gwsim: injected chain query timeout")
		}
	}

	// the real querier over the committed state; a panic inside it reaches a real client as an error
	c.mu.Lock()
	defer c.mu.Unlock()
	defer func() {
		if p := recover(); p != nil {
			c.ev.panicked++
			resp, err = nil, status.Error(codes.Internal, fmt.Sprintf("gwsim: querier panicked: %v", p))
		}
	}()
	rep := c.w.Primary()
	q := ckeeper.NewKeeper(c.w.Cdc, rep.App.GetKey("cert")).Querier()
	resp, err = q.Certificates(sdk.WrapSDKContext(c.w.Ctx(rep)), req)
	n := -1
	if resp != nil {
		n = len(resp.Certificates)
	}
	who := req.Filter.Owner
	if a := c.w.ActorByAddr(who); a != nil {
		who = a.Name
	}
	c.ev.answers = append(c.ev.answers, fmt.Sprintf("%s/%s[%s]->%d", who, req.Filter.Serial, req.Filter.State, n))
	return resp, err
}
