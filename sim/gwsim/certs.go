package gwsim

import (
	"crypto"
	"crypto/ecdsa"
	"crypto/ed25519"
	"crypto/elliptic"
	"crypto/rand"
	"crypto/tls"
	"crypto/x509"
	"crypto/x509/pkix"
	"encoding/asn1"
	"encoding/pem"
	"math/big"
	"sync"
	"time"

	ctypes "github.com/ovrclk/akash/x/cert/types"

	"verifsim/chainsim"
)

// authVersionOID is the extra subject attribute the real akash client puts into its certificates
// (cmd: x/cert/client/cli, test helper: /repo/testutil/cert.go).
var authVersionOID = asn1.ObjectIdentifier{2, 23, 133, 2, 6}

// serial numbers certificates are registered with (index 0 = simplest).
var serialPool = func() []*big.Int {
	two := big.NewInt(2)
	return []*big.Int{big.NewInt(1), big.NewInt(0), big.NewInt(255), big.NewInt(256), big.NewInt(2),
		new(big.Int).Exp(two, big.NewInt(64), nil), big.NewInt(65536), new(big.Int).Exp(two, big.NewInt(159), nil),
		big.NewInt(257), new(big.Int).Sub(new(big.Int).Exp(two, big.NewInt(63), nil), big.NewInt(1))}
}()

// extended-key-usage variants of a registered certificate.
const (
	ekuClient       = iota // ClientAuth (what the akash client issues)
	ekuClientServer        // ClientAuth + ServerAuth (what a provider issues)
	ekuServerOnly          // ServerAuth only: wrong usage
	ekuCodeSigning         // CodeSigning only: wrong usage
	ekuNone                // no EKU extension at all: unrestricted by RFC 5280 (not counted as wrong usage)
)

var ekuNames = []string{"clientAuth", "clientAuth+serverAuth", "serverAuth-only", "codeSigning-only", "no-EKU"}

func ekuList(v int) []x509.ExtKeyUsage {
	switch v {
	case ekuClient:
		return []x509.ExtKeyUsage{x509.ExtKeyUsageClientAuth}
	case ekuClientServer:
		return []x509.ExtKeyUsage{x509.ExtKeyUsageClientAuth, x509.ExtKeyUsageServerAuth}
	case ekuServerOnly:
		return []x509.ExtKeyUsage{x509.ExtKeyUsageServerAuth}
	case ekuCodeSigning:
		return []x509.ExtKeyUsage{x509.ExtKeyUsageCodeSigning}
	}
	return nil
}

// allowsClientAuth is the harness' own reading of a certificate's extended key usage: ClientAuth or
// Any listed, or no EKU restriction at all.
func allowsClientAuth(c *x509.Certificate) bool {
	if len(c.ExtKeyUsage) == 0 && len(c.UnknownExtKeyUsage) == 0 {
		return true
	}
	for _, u := range c.ExtKeyUsage {
		if u == x509.ExtKeyUsageClientAuth || u == x509.ExtKeyUsageAny {
			return true
		}
	}
	return false
}

// validity windows relative to the (bubble) time of creation.
type window struct {
	name     string
	nbf, naf time.Duration
}

var windows = []window{
	{"now..+365d", 0, 365 * 24 * time.Hour},                 // the real client
	{"-1h..+2h", -time.Hour, 2 * time.Hour},                 // expires after a modest clock jump
	{"+30m..+365d", 30 * time.Minute, 365 * 24 * time.Hour}, // not yet valid; valid after a jump
	{"-2h..-1h", -2 * time.Hour, -time.Hour},                // expired by its dates
	{"-1h..+10m", -time.Hour, 10 * time.Minute},
	{"+48h..+72h", 48 * time.Hour, 72 * time.Hour},
	{"-1h..+9d", -time.Hour, 9 * 24 * time.Hour},
	// close to the boundary: any tolerance the gateway grants shows here
	{"+90s..+365d", 90 * time.Second, 365 * 24 * time.Hour},
	{"+5s..+365d", 5 * time.Second, 365 * 24 * time.Hour},
	{"-1h..+90s", -time.Hour, 90 * time.Second},
	{"-1h..+5s", -time.Hour, 5 * time.Second},
}

const (
	algECDSA = iota // P-256, as issued by the real akash client
	algEd25519
)

var algNames = []string{"ecdsa-p256", "ed25519"}

func newKey(alg int) crypto.Signer {
	switch alg {
	case algEd25519:
		_, k, err := ed25519.GenerateKey(rand.Reader)
		if err != nil {
			panic(err)
		}
		return k
	default:
		k, err := ecdsa.GenerateKey(elliptic.P256(), rand.Reader)
		if err != nil {
			panic(err)
		}
		return k
	}
}

type certSpec struct {
	cn     string
	serial *big.Int
	nbf    time.Time
	naf    time.Time
	eku    int
	// firstCN: when set the subject carries TWO commonName attributes, this one first and cn last.  Go (and
	// with it the chain and the gateway's TLS layer) reads the last one; the certificate is cn's.
	firstCN string
}

// makeCert issues a self-signed certificate exactly like the akash client does (template of
// /repo/testutil/cert.go: subject CN = bech32 address + auth-version attribute, issuer = subject,
// KeyUsage DataEncipherment|KeyEncipherment, BasicConstraintsValid).  Key material is random; nothing
// derived from it is ever logged.
func makeCert(sp certSpec, key crypto.Signer) (der []byte, cert *x509.Certificate) {
	tmpl := x509.Certificate{
		SerialNumber: sp.serial,
		Subject: pkix.Name{
			CommonName: sp.cn,
			ExtraNames: []pkix.AttributeTypeAndValue{{Type: authVersionOID, Value: "v0.0.1"}},
		},
		Issuer:                pkix.Name{CommonName: sp.cn},
		NotBefore:             sp.nbf,
		NotAfter:              sp.naf,
		KeyUsage:              x509.KeyUsageDataEncipherment | x509.KeyUsageKeyEncipherment,
		ExtKeyUsage:           ekuList(sp.eku),
		BasicConstraintsValid: true,
	}
	if sp.firstCN != "" {
		cnOID := asn1.ObjectIdentifier{2, 5, 4, 3}
		tmpl.Subject = pkix.Name{ExtraNames: []pkix.AttributeTypeAndValue{{Type: cnOID, Value: sp.firstCN}, {Type: cnOID, Value: sp.cn},
			{Type: authVersionOID, Value: "v0.0.1"}}}
	}
	der, err := x509.CreateCertificate(rand.Reader, &tmpl, &tmpl, key.Public(), key)
	if err != nil {
		panic("gwsim: CreateCertificate: " + err.Error())
	}
	cert, err = x509.ParseCertificate(der)
	if err != nil {
		panic("gwsim: ParseCertificate: " + err.Error())
	}
	return der, cert
}

func certPEM(der []byte) []byte {
	return pem.EncodeToMemory(&pem.Block{Type: ctypes.PemBlkTypeCertificate, Bytes: der})
}

func pubPEM(key crypto.Signer) []byte {
	b, err := x509.MarshalPKIXPublicKey(key.Public())
	if err != nil {
		panic(err)
	}
	return pem.EncodeToMemory(&pem.Block{Type: ctypes.PemBlkTypeECPublicKey, Bytes: b})
}

// reg is the harness' own record of one certificate it registered on chain with a transaction that
// succeeded; revoked is set when a revocation transaction for it succeeded.
type reg struct {
	idx     int
	owner   *chainsim.Actor
	serial  *big.Int
	der     []byte
	cert    *x509.Certificate
	key     crypto.Signer
	created time.Time // bubble time of registration
	eku     int
	win     string
	revoked bool
	cache   tls.ClientSessionCache // TLS session tickets the owner's client collected with this certificate
	// cacheUses: connections made so far with that session cache (from the second one on the client
	// resumes a session if the gateway handed out a ticket)
	cacheUses int
}

func regKey(owner string, serial *big.Int) string { return owner + "|" + serial.String() }

func (g *reg) inWindow(t0, t1 time.Time) bool {
	return !t1.Before(g.cert.NotBefore) && !t0.After(g.cert.NotAfter)
}

func (g *reg) usable(now time.Time) bool {
	return !g.revoked && g.inWindow(now, now) && allowsClientAuth(g.cert)
}

var (
	serverCertOnce sync.Once
	serverCert     tls.Certificate
)

// gatewayCert is the provider's own serving certificate (irrelevant to the property; clients do not
// verify it).  One per process.
func gatewayCert(cn string) tls.Certificate {
	serverCertOnce.Do(func() {
		k := newKey(algECDSA)
		der, _ := makeCert(certSpec{cn: cn, serial: big.NewInt(42), nbf: time.Date(1999, 1, 1, 0, 0, 0, 0, time.UTC),
			naf: time.Date(2100, 1, 1, 0, 0, 0, 0, time.UTC), eku: ekuClientServer}, k)
		serverCert = tls.Certificate{Certificate: [][]byte{der}, PrivateKey: k}
	})
	return serverCert
}
