package gwsim

import (
	"fmt"
	"net/http"
	"testing/synctest"
	"time"

	"verifsim/core"
)

// Overlapping handshakes: client X's handshake waits for a slow (but truthful) answer of the node while
// client Y, on a connection of its own, completes a whole handshake and a request; then X's answer arrives
// and X sends its request.  Every handshake is judged by itself: whatever the gateway keeps between the
// moment it asks the chain and the moment it decides must belong to that handshake alone.
//
// The order is fixed by the bubble's clock, not by Go's scheduler: X is parked on a timer that cannot fire
// before everything else in the bubble - Y's whole exchange included - has come to rest.
func (s *sim) opOverlap(skip bool) *core.Violation {
	r := s.r
	px := s.planConnect()
	py := s.planConnect()
	if skip {
		return nil
	}
	r.Step++
	r.Ops++
	r.Count("op:overlapping-handshakes")
	px.qmode, px.delay, px.abort, px.tls12, px.reqs = qSlowLate, 3*time.Second, -1, false, px.reqs[:1]
	py.qmode, py.delay, py.abort, py.tls12, py.reqs = qOK, 0, -1, false, py.reqs[:1]
	type party struct {
		p       *connPlan
		cr      *cred
		cl      *client
		tr      *http.Transport
		hc      *http.Client
		class   string
		t0      time.Time
		reached bool
	}
	mk := func(p *connPlan) *party {
		s.connSeq++
		cr := p.build()
		now := time.Now()
		class, _ := s.classify(cr, now, now)
		cl := &client{s: s, cr: cr, plan: p}
		tr := &http.Transport{DialTLSContext: cl.dial, DisableCompression: true, MaxIdleConnsPerHost: 1}
		hc := &http.Client{Transport: tr, Timeout: 10 * time.Second, CheckRedirect: func(*http.Request, []*http.Request) error { return http.ErrUseLastResponse }}
		r.Count("op:connect:" + cr.kind)
		r.Logf("%s conn#%d %s [%s] harness-verdict=%s chain-query=%s", s.clock(), s.connSeq, cr.kind, cr.desc, class, qNames[p.qmode])
		return &party{p: p, cr: cr, cl: cl, tr: tr, hc: hc, class: class}
	}
	judge := func(a *party, status int, t1 time.Time, what string) *core.Violation {
		calls, qe, slog := s.be.take(), s.cq.take(), s.srvLog.take()
		faulted := s.countQuery(qe, a.p)
		detail := ""
		for _, c := range calls {
			detail += " backend:" + s.showCall(c)
		}
		for _, l := range slog {
			detail += " gateway-log:\"" + shorten(l, 160) + "\""
		}
		outcome := "no response"
		if status != 0 {
			outcome = fmt.Sprint(status)
			r.Count(fmt.Sprintf("http:%d", status))
		}
		q := a.p.reqs[0]
		r.Logf("   %s: %s %s -> %s%s", what, q.method, q.raw, outcome, detail)
		return s.oracle(a.cl, a.cr, q, calls, a.t0, t1, faulted, &a.reached)
	}
	x := mk(px)
	y := mk(py)
	defer func() {
		x.tr.CloseIdleConnections()
		y.tr.CloseIdleConnections()
		x.cl.closeAll()
		y.cl.closeAll()
		synctest.Wait()
		s.cq.setMode(qOK, 0)
	}()

	// X starts; its handshake asks the chain and waits
	s.cq.setMode(qSlowLate, px.delay)
	x.t0 = time.Now()
	stx, donex := 0, make(chan struct{})
	go func() {
		defer close(donex)
		stx = x.cl.do(x.hc, px.reqs[0])
	}()
	synctest.Wait()
	finished := func() bool {
		select {
		case <-donex:
			return true
		default:
			return false
		}
	}
	if finished() || !s.cq.busy() {
		// the gateway made up its mind about X without asking the chain (or X is through already): nothing
		// overlaps, X is judged first and Y is an ordinary connection after it
		for i := 0; i < 30 && !finished(); i++ {
			time.Sleep(time.Second)
			synctest.Wait()
		}
		if v := judge(x, stx, time.Now(), "first client (no overlap)"); v != nil {
			return v
		}
		s.cq.setMode(qOK, 0)
		y.t0 = time.Now()
		sty := y.cl.do(y.hc, py.reqs[0])
		synctest.Wait()
		if v := judge(y, sty, time.Now(), "second client"); v != nil {
			return v
		}
		r.Abstract(fmt.Sprintf("overlap-none|%s/%s|%s/%s|%s", x.cr.kind, x.class, y.cr.kind, y.class, s.abstractState()))
		return nil
	}
	r.Count("probe:handshake-waits-while-another-completes")

	// Y: a whole handshake and request while X waits
	s.cq.setMode(qOK, 0)
	y.t0 = time.Now()
	sty := y.cl.do(y.hc, py.reqs[0])
	synctest.Wait()
	if finished() {
		panic("gwsim: the waiting handshake finished although no time has passed")
	}
	if v := judge(y, sty, time.Now(), "second client, while the first one's handshake waits for the chain"); v != nil {
		return v
	}

	// the node's answer for X arrives
	for i := 0; i < 30 && !finished(); i++ {
		time.Sleep(time.Second)
		synctest.Wait()
	}
	for s.cq.busy() {
		time.Sleep(time.Second)
		synctest.Wait()
	}
	if !finished() {
		panic("gwsim: the first client's request did not return")
	}
	if v := judge(x, stx, time.Now(), "first client, after the chain answered"); v != nil {
		return v
	}
	if x.reached {
		r.Count("probe:accepted-after-overlapped-handshake")
	}
	r.Abstract(fmt.Sprintf("overlap|%s/%s/%v|%s/%s/%v|%s", x.cr.kind, x.class, x.reached, y.cr.kind, y.class, y.reached, s.abstractState()))
	return nil
}
