#!/bin/bash
# Generates the Layer-2 build inputs under $1 (default /verif/build/l2): instrumented copies of the
# provider's actor files (overlay) and an instrumented copy of go-lifecycle selected with a replace.
# exit 3 = a construct the instrumenter does not support (Layer 2 unavailable, not a verdict).
set -e
cd "$(dirname "$0")"
OUT=${1:-/verif/build/l2}
REPO=${VERIF_REPO:-/repo}
GO=${GO:-go1.26.8}
rm -rf "$OUT"; mkdir -p "$OUT/lifecycle"
FILES="pubsub/bus.go events/publish.go util/runner/runner.go provider/bidengine/service.go provider/bidengine/order.go provider/bidengine/provider_attributes.go provider/cluster/service.go provider/cluster/manager.go provider/cluster/inventory.go provider/cluster/hostname.go provider/cluster/monitor.go provider/cluster/lease_withdraw.go provider/manifest/service.go provider/manifest/manager.go provider/manifest/watchdog.go"
ARGS=""; for f in $FILES; do ARGS="$ARGS $REPO/$f"; done
../bin/yieldgen -out "$OUT/gen" -maprange b.subscriptions $ARGS > "$OUT/ov_body.json"
LC=$($GO list -m -f '{{.Dir}}' github.com/boz/go-lifecycle)
../bin/yieldgen -out "$OUT/lcgen" "$LC/lifecycle.go" > /dev/null
cp "$OUT"/lcgen/*lifecycle.go "$OUT/lifecycle/lifecycle.go"
printf 'module github.com/boz/go-lifecycle\n\ngo 1.12\n' > "$OUT/lifecycle/go.mod"
python3 - "$OUT" "$2" <<'PY'
import json,sys
out=sys.argv[1]
ov=json.load(open(out+'/ov_body.json'))
base=json.load(open(sys.argv[2]))['Replace'] if len(sys.argv)>2 and sys.argv[2] else {}
base.update(ov)
json.dump({"Replace":base},open(out+'/overlay.json','w'),indent=1)
PY
cp go.mod "$OUT/go.l2.mod"; echo "replace github.com/boz/go-lifecycle => $OUT/lifecycle" >> "$OUT/go.l2.mod"; cp go.sum "$OUT/go.l2.sum"
