package main

import (
	"verifsim/core"
	"verifsim/kubesim"
)

func main() {
	core.Main(kubesim.Engine{})
}
