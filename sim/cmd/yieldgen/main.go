// yieldgen is the Layer-2 source-to-source instrumenter (DESIGN.md section 3.3).  It rewrites `go`
// statements, channel sends/receives, close() and `select` of the given Go files into calls to
// verifsim/simrt, and key-only `range` loops over the maps named with -maprange into an iteration
// over simrt.OrderedKeys.  It is purely syntactic.  Output: instrumented copies in -out and an
// overlay JSON fragment on stdout ("original": "copy").  A construct it cannot handle makes it exit
// with status 3 and a message; the caller then runs without Layer 2.
package main

import (
	"bytes"
	"encoding/json"
	"flag"
	"fmt"
	"go/ast"
	"go/format"
	"go/parser"
	"go/token"
	"os"
	"path/filepath"
	"reflect"
	"strings"
)

var (
	outDir   = flag.String("out", "", "output directory")
	stmtYield = flag.Bool("stmts", false, "additionally make every statement of every block a scheduling point (request handlers without channel operations)")
	mapRange = flag.String("maprange", "", "comma separated selector suffixes of maps whose key-only range is made deterministic, e.g. b.subscriptions")
	pkgAlias = "simrt"
)

type unsupported struct{ msg string }

func fail(fset *token.FileSet, pos token.Pos, format string, a ...interface{}) {
	panic(unsupported{fmt.Sprintf("%s: %s", fset.Position(pos), fmt.Sprintf(format, a...))})
}

type rewriter struct {
	fset    *token.FileSet
	file    string
	imports map[string]bool
	n       int
	changed bool
	maps    map[string]bool
}

func (rw *rewriter) tmp(prefix string) string {
	rw.n++
	return fmt.Sprintf("_yg%s%d", prefix, rw.n)
}

func (rw *rewriter) site(pos token.Pos) ast.Expr {
	p := rw.fset.Position(pos)
	return &ast.BasicLit{Kind: token.STRING, Value: fmt.Sprintf("%q", fmt.Sprintf("%s:%d", rw.file, p.Line))}
}

func sel(name string) ast.Expr {
	return &ast.SelectorExpr{X: ast.NewIdent(pkgAlias), Sel: ast.NewIdent(name)}
}

func call(fn ast.Expr, args ...ast.Expr) *ast.CallExpr { return &ast.CallExpr{Fun: fn, Args: args} }

func define(name string, rhs ast.Expr) ast.Stmt {
	return &ast.AssignStmt{Lhs: []ast.Expr{ast.NewIdent(name)}, Tok: token.DEFINE, Rhs: []ast.Expr{rhs}}
}

func isRecv(e ast.Expr) (*ast.UnaryExpr, bool) {
	for {
		p, ok := e.(*ast.ParenExpr)
		if !ok {
			break
		}
		e = p.X
	}
	u, ok := e.(*ast.UnaryExpr)
	return u, ok && u.Op == token.ARROW
}

// ---------------------------------------------------------------- statements

// rewriteStmtList rewrites a list of statements in place (children first).
func (rw *rewriter) rewriteStmtList(list []ast.Stmt) []ast.Stmt {
	for i, s := range list {
		list[i] = rw.rewriteStmt(s)
	}
	return list
}

func (rw *rewriter) rewriteStmt(s ast.Stmt) ast.Stmt {
	if s == nil {
		return nil
	}
	switch st := s.(type) {
	case *ast.BlockStmt:
		st.List = rw.rewriteStmtList(st.List)
		return st
	case *ast.IfStmt:
		st.Init = rw.rewriteStmt(st.Init)
		st.Body = rw.rewriteStmt(st.Body).(*ast.BlockStmt)
		st.Else = rw.rewriteStmt(st.Else)
		return st
	case *ast.ForStmt:
		st.Init = rw.rewriteStmt(st.Init)
		st.Post = rw.rewriteStmt(st.Post)
		st.Body = rw.rewriteStmt(st.Body).(*ast.BlockStmt)
		return st
	case *ast.RangeStmt:
		st.Body = rw.rewriteStmt(st.Body).(*ast.BlockStmt)
		return rw.rewriteRange(st)
	case *ast.SwitchStmt:
		st.Init = rw.rewriteStmt(st.Init)
		st.Body = rw.rewriteStmt(st.Body).(*ast.BlockStmt)
		return st
	case *ast.TypeSwitchStmt:
		st.Init = rw.rewriteStmt(st.Init)
		st.Body = rw.rewriteStmt(st.Body).(*ast.BlockStmt)
		return st
	case *ast.CaseClause:
		st.Body = rw.rewriteStmtList(st.Body)
		return st
	case *ast.CommClause:
		st.Body = rw.rewriteStmtList(st.Body)
		return st
	case *ast.LabeledStmt:
		if _, isSel := st.Stmt.(*ast.SelectStmt); isSel {
			fail(rw.fset, st.Pos(), "labeled select is not supported")
		}
		st.Stmt = rw.rewriteStmt(st.Stmt)
		return st
	case *ast.SelectStmt:
		st.Body = rw.rewriteStmt(st.Body).(*ast.BlockStmt)
		return rw.rewriteSelect(st)
	case *ast.GoStmt:
		rw.rewriteFuncLits(st.Call)
		return rw.rewriteGo(st)
	case *ast.SendStmt:
		rw.changed = true
		return &ast.ExprStmt{X: call(call(sel("Send"), rw.site(st.Pos()), st.Chan), st.Value)}
	case *ast.ExprStmt:
		if c, ok := st.X.(*ast.CallExpr); ok {
			if id, ok := c.Fun.(*ast.Ident); ok && id.Name == "close" && len(c.Args) == 1 {
				rw.changed = true
				return &ast.ExprStmt{X: call(sel("Close"), rw.site(st.Pos()), c.Args[0])}
			}
		}
		rw.rewriteFuncLits(st)
		return st
	case *ast.DeferStmt:
		rw.rewriteFuncLits(st.Call)
		return st
	default:
		rw.rewriteFuncLits(s)
		return s
	}
}

// rewriteFuncLits descends into function literals nested in expressions of a simple statement.
func (rw *rewriter) rewriteFuncLits(n ast.Node) {
	ast.Inspect(n, func(x ast.Node) bool {
		if fl, ok := x.(*ast.FuncLit); ok {
			fl.Body = rw.rewriteStmt(fl.Body).(*ast.BlockStmt)
			return false
		}
		return true
	})
}

func (rw *rewriter) rewriteRange(st *ast.RangeStmt) ast.Stmt {
	if st.Value != nil || st.Key == nil || st.Tok != token.DEFINE {
		return st
	}
	var buf bytes.Buffer
	format.Node(&buf, rw.fset, st.X)
	if !rw.maps[buf.String()] {
		return st
	}
	rw.changed = true
	// for k := range m  ==>  for _, k := range simrt.OrderedKeys(m) { if _, ok := m[k]; !ok { continue }; ... }
	// (Go does not produce an entry that was removed before the iteration reached it)
	mapExpr := st.X
	key := st.Key
	st.Value = st.Key
	st.Key = ast.NewIdent("_")
	st.X = call(sel("OrderedKeys"), mapExpr)
	guard := &ast.IfStmt{
		Init: &ast.AssignStmt{Lhs: []ast.Expr{ast.NewIdent("_"), ast.NewIdent("_ygok")}, Tok: token.DEFINE,
			Rhs: []ast.Expr{&ast.IndexExpr{X: mapExpr, Index: key}}},
		Cond: &ast.UnaryExpr{Op: token.NOT, X: ast.NewIdent("_ygok")},
		Body: &ast.BlockStmt{List: []ast.Stmt{&ast.BranchStmt{Tok: token.CONTINUE}}},
	}
	st.Body.List = append([]ast.Stmt{guard}, st.Body.List...)
	return st
}

func simpleExpr(e ast.Expr) bool {
	switch x := e.(type) {
	case *ast.BasicLit, *ast.FuncLit:
		return true
	case *ast.Ident:
		return x.Name == "nil" || x.Name == "true" || x.Name == "false"
	}
	return false
}

// go f(a, b)  =>  { _t1 := a; _t2 := b; simrt.Go("f", func() { f(_t1, _t2) }) }
// go x.m(a)   =>  { _r := x; _t1 := a; simrt.GoR(_r, "x.m", func() { _r.m(_t1) }) }
func (rw *rewriter) rewriteGo(st *ast.GoStmt) ast.Stmt {
	rw.changed = true
	var pre []ast.Stmt
	c := st.Call
	var nameBuf bytes.Buffer
	format.Node(&nameBuf, rw.fset, c.Fun)
	name := nameBuf.String()
	if len(name) > 40 {
		name = "func"
	}
	var recv ast.Expr
	switch f := c.Fun.(type) {
	case *ast.SelectorExpr:
		if id, ok := f.X.(*ast.Ident); !(ok && rw.imports[id.Name]) {
			t := rw.tmp("r")
			pre = append(pre, define(t, f.X))
			f.X = ast.NewIdent(t)
			recv = ast.NewIdent(t)
		}
	case *ast.FuncLit, *ast.Ident:
	default:
		fail(rw.fset, st.Pos(), "go statement with unsupported function expression %T", c.Fun)
	}
	for i, a := range c.Args {
		if simpleExpr(a) {
			continue
		}
		t := rw.tmp("a")
		pre = append(pre, define(t, a))
		c.Args[i] = ast.NewIdent(t)
	}
	if c.Ellipsis.IsValid() {
		fail(rw.fset, st.Pos(), "go statement with variadic spread")
	}
	body := &ast.FuncLit{Type: &ast.FuncType{Params: &ast.FieldList{}}, Body: &ast.BlockStmt{List: []ast.Stmt{&ast.ExprStmt{X: c}}}}
	lit := &ast.BasicLit{Kind: token.STRING, Value: fmt.Sprintf("%q", name)}
	var goCall ast.Stmt
	if recv != nil {
		goCall = &ast.ExprStmt{X: call(sel("GoR"), recv, lit, body)}
	} else {
		goCall = &ast.ExprStmt{X: call(sel("Go"), lit, body)}
	}
	return &ast.BlockStmt{List: append(pre, goCall)}
}

func (rw *rewriter) rewriteSelect(st *ast.SelectStmt) ast.Stmt {
	rw.changed = true
	s := rw.tmp("s")
	stmts := []ast.Stmt{define(s, call(sel("NewSelect"), rw.site(st.Pos())))}
	sw := &ast.SwitchStmt{Tag: call(&ast.SelectorExpr{X: ast.NewIdent(s), Sel: ast.NewIdent("Run")}), Body: &ast.BlockStmt{}}
	idx := 0
	for _, cc := range st.Body.List {
		cl := cc.(*ast.CommClause)
		if cl.Comm == nil {
			stmts = append(stmts, &ast.ExprStmt{X: call(&ast.SelectorExpr{X: ast.NewIdent(s), Sel: ast.NewIdent("Default")})})
			sw.Body.List = append(sw.Body.List, &ast.CaseClause{List: []ast.Expr{&ast.UnaryExpr{Op: token.SUB, X: &ast.BasicLit{Kind: token.INT, Value: "1"}}}, Body: cl.Body})
			continue
		}
		caseIdx := &ast.BasicLit{Kind: token.INT, Value: fmt.Sprint(idx)}
		idx++
		var body []ast.Stmt
		switch comm := cl.Comm.(type) {
		case *ast.SendStmt:
			stmts = append(stmts, &ast.ExprStmt{X: call(call(sel("SelSend"), ast.NewIdent(s), comm.Chan), comm.Value)})
		case *ast.ExprStmt:
			u, ok := isRecv(comm.X)
			if !ok {
				fail(rw.fset, comm.Pos(), "select case is not a channel operation")
			}
			c := rw.tmp("c")
			stmts = append(stmts, define(c, call(sel("SelRecv"), ast.NewIdent(s), u.X)))
			body = append(body, &ast.AssignStmt{Lhs: []ast.Expr{ast.NewIdent("_")}, Tok: token.ASSIGN, Rhs: []ast.Expr{ast.NewIdent(c)}})
		case *ast.AssignStmt:
			if len(comm.Rhs) != 1 {
				fail(rw.fset, comm.Pos(), "unsupported select receive")
			}
			u, ok := isRecv(comm.Rhs[0])
			if !ok {
				fail(rw.fset, comm.Pos(), "select case is not a receive")
			}
			c := rw.tmp("c")
			stmts = append(stmts, define(c, call(sel("SelRecv"), ast.NewIdent(s), u.X)))
			rhs := []ast.Expr{&ast.SelectorExpr{X: ast.NewIdent(c), Sel: ast.NewIdent("Val")}}
			if len(comm.Lhs) == 2 {
				rhs = append(rhs, &ast.SelectorExpr{X: ast.NewIdent(c), Sel: ast.NewIdent("OK")})
			}
			tok := comm.Tok
			allBlank := true
			for _, l := range comm.Lhs {
				if id, ok := l.(*ast.Ident); !ok || id.Name != "_" {
					allBlank = false
				}
			}
			if allBlank {
				tok = token.ASSIGN
			}
			body = append(body, &ast.AssignStmt{Lhs: comm.Lhs, Tok: tok, Rhs: rhs})
		default:
			fail(rw.fset, cl.Pos(), "unsupported select communication %T", cl.Comm)
		}
		sw.Body.List = append(sw.Body.List, &ast.CaseClause{List: []ast.Expr{caseIdx}, Body: append(body, cl.Body...)})
	}
	// keeps "all cases return" selects terminating statements for the compiler
	sw.Body.List = append(sw.Body.List, &ast.CaseClause{Body: []ast.Stmt{&ast.ExprStmt{X: call(ast.NewIdent("panic"), &ast.BasicLit{Kind: token.STRING, Value: `"simrt: select returned an unknown case"`})}}})
	stmts = append(stmts, sw)
	return &ast.BlockStmt{List: stmts}
}

// ---------------------------------------------------------------- expressions: plain receives

var exprType = reflect.TypeOf((*ast.Expr)(nil)).Elem()

// rewriteRecvExprs replaces every remaining `<-ch` (all selects are gone by now).
func (rw *rewriter) rewriteRecvExprs(n ast.Node) {
	ast.Inspect(n, func(x ast.Node) bool {
		if x == nil {
			return false
		}
		// two-value receive
		switch a := x.(type) {
		case *ast.AssignStmt:
			if len(a.Lhs) == 2 && len(a.Rhs) == 1 {
				if u, ok := isRecv(a.Rhs[0]); ok {
					rw.changed = true
					a.Rhs[0] = call(sel("Recv2"), rw.site(u.Pos()), u.X)
				}
			}
		case *ast.ValueSpec:
			if len(a.Names) == 2 && len(a.Values) == 1 {
				if u, ok := isRecv(a.Values[0]); ok {
					rw.changed = true
					a.Values[0] = call(sel("Recv2"), rw.site(u.Pos()), u.X)
				}
			}
		}
		v := reflect.ValueOf(x)
		if v.Kind() != reflect.Ptr || v.IsNil() {
			return true
		}
		v = v.Elem()
		if v.Kind() != reflect.Struct {
			return true
		}
		for i := 0; i < v.NumField(); i++ {
			f := v.Field(i)
			switch {
			case f.Type() == exprType && !f.IsNil():
				if u, ok := isRecv(f.Interface().(ast.Expr)); ok {
					rw.changed = true
					f.Set(reflect.ValueOf(ast.Expr(call(sel("Recv"), rw.site(u.Pos()), u.X))))
				}
			case f.Kind() == reflect.Slice && f.Type().Elem() == exprType:
				for j := 0; j < f.Len(); j++ {
					if u, ok := isRecv(f.Index(j).Interface().(ast.Expr)); ok {
						rw.changed = true
						f.Index(j).Set(reflect.ValueOf(ast.Expr(call(sel("Recv"), rw.site(u.Pos()), u.X))))
					}
				}
			}
		}
		return true
	})
}

// yieldBeforeStatements inserts simrt.Yield("file:line") in front of every statement of every block -
// except while the enclosing function visibly holds a lock (between x.Lock()/RLock() and the matching
// Unlock in the same statement list, or after `defer x.Unlock()`): a goroutine parked with a mutex held
// would make another one block on that mutex, which a synctest bubble does not count as idle.
func (rw *rewriter) yieldBeforeStatements(f *ast.File) {
	lockCall := func(st ast.Stmt, names ...string) bool {
		var call *ast.CallExpr
		switch x := st.(type) {
		case *ast.ExprStmt:
			call, _ = x.X.(*ast.CallExpr)
		case *ast.DeferStmt:
			call = x.Call
		}
		if call == nil {
			return false
		}
		sel, ok := call.Fun.(*ast.SelectorExpr)
		if !ok {
			return false
		}
		for _, n := range names {
			if sel.Sel.Name == n {
				return true
			}
		}
		return false
	}
	var walkBlock func(b *ast.BlockStmt, held bool)
	var walkStmt func(st ast.Stmt, held bool)
	walkFuncs := func(n ast.Node, held bool) {
		// function literals inside expressions start with no lock held of their own
		ast.Inspect(n, func(m ast.Node) bool {
			if fl, ok := m.(*ast.FuncLit); ok {
				walkBlock(fl.Body, false)
				return false
			}
			return true
		})
	}
	walkStmt = func(st ast.Stmt, held bool) {
		switch x := st.(type) {
		case *ast.BlockStmt:
			walkBlock(x, held)
		case *ast.IfStmt:
			walkFuncs(x.Cond, held)
			walkBlock(x.Body, held)
			if x.Else != nil {
				walkStmt(x.Else, held)
			}
		case *ast.ForStmt:
			walkBlock(x.Body, held)
		case *ast.RangeStmt:
			walkBlock(x.Body, held)
		case *ast.SwitchStmt:
			for _, c := range x.Body.List {
				cc := c.(*ast.CaseClause)
				walkBlock(&ast.BlockStmt{List: cc.Body}, held) // statements of a clause are not rewritten (no yields), nested blocks are
			}
		case *ast.TypeSwitchStmt:
			for _, c := range x.Body.List {
				cc := c.(*ast.CaseClause)
				walkBlock(&ast.BlockStmt{List: cc.Body}, held)
			}
		default:
			walkFuncs(st, held)
		}
	}
	walkBlock = func(b *ast.BlockStmt, held bool) {
		isClauseList := false
		for _, st := range b.List {
			switch st.(type) {
			case *ast.CaseClause, *ast.CommClause:
				isClauseList = true
			}
		}
		if isClauseList {
			return
		}
		var list []ast.Stmt
		for _, st := range b.List {
			if lockCall(st, "Unlock", "RUnlock") {
				if _, isDefer := st.(*ast.DeferStmt); isDefer {
					held = true // released only when the function returns
				}
			}
			if !held && st.Pos().IsValid() {
				list = append(list, &ast.ExprStmt{X: call(sel("Yield"), rw.site(st.Pos()))})
				rw.changed = true
			}
			walkStmt(st, held)
			list = append(list, st)
			if _, isDefer := st.(*ast.DeferStmt); !isDefer {
				if lockCall(st, "Lock", "RLock") {
					held = true
				} else if lockCall(st, "Unlock", "RUnlock") {
					held = false
				}
			}
		}
		b.List = list
	}
	for _, d := range f.Decls {
		if fd, ok := d.(*ast.FuncDecl); ok && fd.Body != nil {
			walkBlock(fd.Body, false)
		}
	}
}

func process(path string, maps map[string]bool) (out []byte, err error) {
	defer func() {
		if p := recover(); p != nil {
			if u, ok := p.(unsupported); ok {
				err = fmt.Errorf("%s", u.msg)
				return
			}
			panic(p)
		}
	}()
	fset := token.NewFileSet()
	f, perr := parser.ParseFile(fset, path, nil, 0) // comments dropped on purpose
	if perr != nil {
		return nil, perr
	}
	rw := &rewriter{fset: fset, file: filepath.Base(path), imports: map[string]bool{}, maps: maps}
	for _, im := range f.Imports {
		p := strings.Trim(im.Path.Value, `"`)
		name := filepath.Base(p)
		if im.Name != nil {
			name = im.Name.Name
		}
		rw.imports[name] = true
		if name == pkgAlias {
			return nil, fmt.Errorf("%s: already imports something as %s", path, pkgAlias)
		}
	}
	for _, d := range f.Decls {
		if fd, ok := d.(*ast.FuncDecl); ok && fd.Body != nil {
			fd.Body = rw.rewriteStmt(fd.Body).(*ast.BlockStmt)
		}
	}
	rw.rewriteRecvExprs(f)
	if *stmtYield {
		rw.yieldBeforeStatements(f)
	}
	if rw.changed {
		imp := &ast.GenDecl{Tok: token.IMPORT, Specs: []ast.Spec{&ast.ImportSpec{Name: ast.NewIdent(pkgAlias), Path: &ast.BasicLit{Kind: token.STRING, Value: `"verifsim/simrt"`}}}}
		f.Decls = append([]ast.Decl{imp}, f.Decls...)
	}
	var buf bytes.Buffer
	buf.WriteString("//go:build go1.21\n\n// Code generated by yieldgen from " + path + "; DO NOT EDIT.\n\n")
	if err := format.Node(&buf, fset, f); err != nil {
		return nil, err
	}
	// re-parse + format once more: the rewritten tree has no position information
	chk := token.NewFileSet()
	if _, err := parser.ParseFile(chk, path, buf.Bytes(), 0); err != nil {
		return nil, fmt.Errorf("generated code for %s does not parse: %v", path, err)
	}
	return format.Source(buf.Bytes())
}

func main() {
	flag.Parse()
	if *outDir == "" || flag.NArg() == 0 {
		fmt.Fprintln(os.Stderr, "usage: yieldgen -out dir [-maprange a.b,c.d] files...")
		os.Exit(2)
	}
	maps := map[string]bool{}
	for _, m := range strings.Split(*mapRange, ",") {
		if m != "" {
			maps[m] = true
		}
	}
	os.MkdirAll(*outDir, 0o755)
	overlay := map[string]string{}
	for _, path := range flag.Args() {
		out, err := process(path, maps)
		if err != nil {
			fmt.Fprintln(os.Stderr, "yieldgen: unsupported:", err)
			os.Exit(3)
		}
		name := strings.NewReplacer("/", "_").Replace(strings.TrimPrefix(path, "/"))
		dst := filepath.Join(*outDir, name)
		if err := os.WriteFile(dst, out, 0o644); err != nil {
			fmt.Fprintln(os.Stderr, err)
			os.Exit(2)
		}
		overlay[path] = dst
	}
	b, _ := json.MarshalIndent(overlay, "", " ")
	os.Stdout.Write(b)
}
