package main

import (
	"os"

	"verifsim/chainsim"
	"verifsim/core"
)

func main() {
	if len(os.Args) == 3 && os.Args[1] == "-reexec" {
		os.Exit(chainsim.Reexec(os.Args[2]))
	}
	core.Main(chainsim.Engine{})
}
