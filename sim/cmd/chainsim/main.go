package main

import (
	"verifsim/chainsim"
	"verifsim/core"
)

func main() { core.Main(chainsim.Engine{}) }
