package core

import (
	"fmt"
	"hash/fnv"
	"sort"
)

// Violation is what an engine returns when an oracle fails.  Class is a stable signature
// ("<clause>/<shape>") used for minimisation (same class must recur) and for known-findings matching.
type Violation struct {
	Property string `json:"property"`
	Class    string `json:"class"`
	Msg      string `json:"msg"`
	Step     int    `json:"step"`
}

func (v *Violation) String() string {
	return fmt.Sprintf("property=%s class=%s step=%d: %s", v.Property, v.Class, v.Step, v.Msg)
}

// Run is the context of one simulated execution.
type Run struct {
	*Stream
	Seed     uint64
	Index    uint64
	Property string
	Tier     string
	Cfg      map[string]string

	Counters map[string]int64 // fault kinds fired, reach probes, op kinds
	Trace    []string         // bounded human readable history (head)
	Ops      int              // operations issued
	Mutating int              // operations that changed state
	SimTime  int64            // simulated time covered (engine unit: blocks or ms)
	Step     int

	known    map[string]bool
	KnownHit map[string]string // class -> first message
	logHash  uint64
	absHash  uint64
	logLines int
	FullLog  []string // only when KeepFullLog
	KeepLog  bool
}

const traceCap = 300

func newRun(s *Stream, seed, index uint64, property, tier string, cfg map[string]string, known map[string]bool) *Run {
	return &Run{Stream: s, Seed: seed, Index: index, Property: property, Tier: tier, Cfg: cfg,
		Counters: map[string]int64{}, known: known, KnownHit: map[string]string{},
		logHash: 14695981039346656037, absHash: 14695981039346656037}
}

func mix(h uint64, s string) uint64 {
	f := fnv.New64a()
	var b [8]byte
	for i := 0; i < 8; i++ {
		b[i] = byte(h >> (8 * i))
	}
	f.Write(b[:])
	f.Write([]byte(s))
	return f.Sum64()
}

// Logf records an event of the run: it goes to the bounded trace, to the determinism hash and (when
// requested) to the full log.  It never draws from the choice stream and never reads a clock.
func (r *Run) Logf(format string, a ...interface{}) {
	s := fmt.Sprintf(format, a...)
	r.logHash = mix(r.logHash, s)
	r.logLines++
	if len(r.Trace) < traceCap {
		r.Trace = append(r.Trace, s)
	}
	if r.KeepLog {
		r.FullLog = append(r.FullLog, s)
	}
}

// Abstract feeds the abstract-trace fingerprint used to count distinct non-trivial runs:
// (operation kind, outcome class, abstract state) after every step.
func (r *Run) Abstract(s string) { r.absHash = mix(r.absHash, s) }

func (r *Run) Count(name string)            { r.Counters[name]++ }
func (r *Run) CountN(name string, n int64)  { r.Counters[name] += n }
func (r *Run) Cfgs(key, def string) string  { if v, ok := r.Cfg[key]; ok { return v }; return def }
func (r *Run) LogHash() uint64              { return r.logHash }
func (r *Run) AbsHash() uint64              { return r.absHash }
func (r *Run) NonTrivial() bool             { return r.Ops >= 3 && r.Mutating >= 1 }

// Flag builds a violation unless its class is a recorded known finding for this property, in which
// case it is counted and nil is returned so the run may continue.
func (r *Run) Flag(class string, format string, a ...interface{}) *Violation {
	msg := fmt.Sprintf(format, a...)
	if r.known[class] {
		if _, ok := r.KnownHit[class]; !ok {
			r.KnownHit[class] = msg
		}
		r.Counters["known:"+class]++
		return nil
	}
	return &Violation{Property: r.Property, Class: class, Msg: msg, Step: r.Step}
}

func sortedKeys(m map[string]int64) []string {
	k := make([]string, 0, len(m))
	for x := range m {
		k = append(k, x)
	}
	sort.Strings(k)
	return k
}

// NewRunForTest builds a random-stream run (used by profiling tests).
func NewRunForTest(index uint64, property string) *Run {
	return newRun(NewRandomStream(1, index), 1, index, property, "quick", map[string]string{}, map[string]bool{})
}
