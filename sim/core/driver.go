package core

import (
	"bufio"
	"bytes"
	"encoding/json"
	"flag"
	"fmt"
	"os"
	"os/exec"
	"path/filepath"
	"runtime"
	"runtime/debug"
	"sort"
	"strconv"
	"strings"
	"sync"
	"sync/atomic"
	"time"
)

// Engine is one simulator.  Execute performs exactly one simulated run as a pure function of the
// run's choice stream and returns the first violation of r.Property (nil if the property held).
type Engine interface {
	Name() string
	Properties() []string
	Execute(r *Run) *Violation
	Describe(property string) Description
}

type Description struct {
	Rule           string
	Real           []string
	Stub           []string
	Assumptions    []string
	RequiredProbes []string // must be > 0 in a thorough run (exit 2 otherwise)
	QuickRuns      int
	ThoroughRuns   int
	QuickBudgetS   int
	ThoroughBudget int // seconds
	SimTimeUnit    string
	// ReplayAttempts > 1: the property is about repeated execution of the code under test (C07: results
	// independent of map iteration order), so a counterexample is a history at which a repetition diverges
	// with some probability; a replay is then repeated up to this many times and counts as reproduced
	// when any repetition shows the violation.  The harness's own choices are identical every time.
	ReplayAttempts int
	Extra          map[string]interface{}
}

var (
	fProperty = flag.String("property", "", "property id (C01..)")
	fTier     = flag.String("tier", "", "quick|thorough (default $VERIF_TIER or quick)")
	fSeed     = flag.String("seed", "", "seed (default $VERIF_SEED or 1)")
	fRuns     = flag.Int("runs", 0, "override number of runs")
	fWorkers  = flag.Int("workers", 0, "worker processes (default NumCPU)")
	fBudget   = flag.Int("budget", 0, "override wall budget in seconds")
	fReplay   = flag.String("replay", "", "replay file")
	fWorker   = flag.Int("worker", -1, "internal: worker index")
	fOut      = flag.String("out", "", "internal: worker result file")
	fDump     = flag.String("dumplog", "", "write per-run determinism digests to this file (selftest)")
	fCfg      = flag.String("cfg", "", "engine knobs k=v,k=v")
	fNoEvid   = flag.Bool("noevidence", false, "do not write the evidence file")
	fVerbose  = flag.Bool("v", false, "verbose")
	fFullLog  = flag.Bool("fulllog", false, "replay: print full event log")
)

func verifRoot() string {
	if v := os.Getenv("VERIF_ROOT"); v != "" {
		return v
	}
	return "/verif"
}

type ReplayFile struct {
	Engine   string            `json:"engine"`
	Property string            `json:"property"`
	Tier     string            `json:"tier"`
	Seed     uint64            `json:"seed"`
	Run      uint64            `json:"run"`
	Cfg      map[string]string `json:"cfg,omitempty"`
	Choices  []int             `json:"choices"`
	Labels   []string          `json:"labels,omitempty"`
	Expect   Violation         `json:"expect"`
	Trace    []string          `json:"trace,omitempty"`
	Original int               `json:"original_choices"`
	// Warmup: the worker process that found the violation had executed runs Worker, Worker+Workers, ... < Run
	// of the same seed before it.  A replay that shows nothing in a fresh process is repeated after those
	// runs: code under test that keeps state in process memory (a cache, a counter) across independent
	// histories is then reproduced faithfully.
	Warmup *WarmupSpec `json:"warmup,omitempty"`
	// OriginalChoices: the choice list as found, before minimisation.  When the code under test keeps state
	// in process memory the minimiser's own candidate executions feed that state, and the minimised list
	// may only fail in the minimising process; the list as found, after the warm-up, is then the replay.
	OriginalChoices []int `json:"original_choice_list,omitempty"`
}

type WarmupSpec struct {
	Workers int `json:"workers"`
	Worker  int `json:"worker"`
}

var curWarmup *WarmupSpec

type workerResult struct {
	Worker     int               `json:"worker"`
	Runs       int               `json:"runs"`
	NonTrivial int               `json:"nontrivial"`
	Counters   map[string]int64  `json:"counters"`
	Hashes     []uint64          `json:"hashes"`
	States     []uint64          `json:"states,omitempty"`
	Choices    int64             `json:"choices"`
	Ops        int64             `json:"ops"`
	SimTime    int64             `json:"simtime"`
	Samples    [][]string        `json:"samples"`
	Violations []foundViolation  `json:"violations"`
	Known      map[string]string `json:"known"`
	Overruns   int               `json:"overruns"`
	WallS      float64           `json:"wall_s"`
	Fatal      string            `json:"fatal,omitempty"`
}

type foundViolation struct {
	V      Violation `json:"v"`
	Replay string    `json:"replay"`
	Run    uint64    `json:"run"`
}

func parseCfg(s string) map[string]string {
	m := map[string]string{}
	for _, kv := range strings.Split(s, ",") {
		if kv == "" {
			continue
		}
		p := strings.SplitN(kv, "=", 2)
		if len(p) == 2 {
			m[p[0]] = p[1]
		} else {
			m[p[0]] = "1"
		}
	}
	return m
}

func loadKnown(property string) (map[string]bool, map[string]string) {
	known := map[string]bool{}
	desc := map[string]string{}
	f, err := os.Open(filepath.Join(verifRoot(), "known-findings.jsonl"))
	if err != nil {
		return known, desc
	}
	defer f.Close()
	sc := bufio.NewScanner(f)
	sc.Buffer(make([]byte, 1<<20), 1<<20)
	for sc.Scan() {
		line := strings.TrimSpace(sc.Text())
		if line == "" || strings.HasPrefix(line, "#") || strings.HasPrefix(line, "fixed:") {
			continue
		}
		var e struct {
			Property  string `json:"property"`
			Signature string `json:"signature"`
			What      string `json:"what"`
			Status    string `json:"status"`
		}
		if json.Unmarshal([]byte(line), &e) != nil || e.Status == "fixed" {
			continue
		}
		if e.Property == property {
			known[e.Signature] = true
			desc[e.Signature] = e.What
		}
	}
	return known, desc
}

// safeExecute runs the engine and converts a panic of the harness or the code under test that
// escaped the engine's own handling into a harness fault (never a VIOLATION).
// run watchdog: a single simulated run that does not return within the limit (a livelock of the
// harness or of the code under simulation) ends the worker process with exit 2 - harness trouble,
// never a verdict - instead of hanging the check.
var (
	watchStart atomic.Int64 // unix nanoseconds of the start of the run in progress, 0 when idle
	watchWhat  atomic.Value // string
	watchOnce  sync.Once
)

func startWatchdog() {
	limit := 900 * time.Second
	if v, err := strconv.Atoi(os.Getenv("VERIF_RUN_WATCHDOG_S")); err == nil && v > 0 {
		limit = time.Duration(v) * time.Second
	}
	go func() {
		for {
			time.Sleep(5 * time.Second)
			if st := watchStart.Load(); st != 0 && time.Since(time.Unix(0, st)) > limit {
				fmt.Fprintf(os.Stderr, "HARNESS-WATCHDOG: %v did not finish within %v (harness trouble, not a verdict)\n", watchWhat.Load(), limit)
				os.Exit(2)
			}
		}
	}()
}

func safeExecute(e Engine, r *Run) (v *Violation, fatal string) {
	watchOnce.Do(startWatchdog)
	watchWhat.Store(fmt.Sprintf("run property=%s seed=%d index=%d", r.Property, r.Seed, r.Index))
	watchStart.Store(time.Now().UnixNano())
	defer watchStart.Store(0)
	defer func() {
		if p := recover(); p != nil {
			fatal = fmt.Sprintf("panic in run %d: %v\n%s", r.Index, p, debug.Stack())
		}
	}()
	return e.Execute(r), ""
}

// Main is the entry point of every engine binary (t is non-nil for synctest based test binaries,
// it is only kept by the engine; core does not use it).
func Main(e Engine) {
	if !flag.Parsed() {
		flag.Parse()
	}
	tier := *fTier
	if tier == "" {
		tier = os.Getenv("VERIF_TIER")
	}
	if tier == "" {
		tier = "quick"
	}
	seedS := *fSeed
	if seedS == "" {
		seedS = os.Getenv("VERIF_SEED")
	}
	if seedS == "" {
		seedS = "1"
	}
	seed, err := strconv.ParseUint(seedS, 10, 64)
	if err != nil {
		sv, err2 := strconv.ParseInt(seedS, 10, 64)
		if err2 != nil {
			fmt.Fprintf(os.Stderr, "bad seed %q\n", seedS)
			os.Exit(2)
		}
		seed = uint64(sv)
	}
	cfg := parseCfg(*fCfg)

	if *fReplay != "" {
		os.Exit(doReplay(e, *fReplay))
	}
	ok := false
	for _, p := range e.Properties() {
		if p == *fProperty {
			ok = true
		}
	}
	if !ok {
		fmt.Fprintf(os.Stderr, "engine %s does not serve property %q (serves %v)\n", e.Name(), *fProperty, e.Properties())
		os.Exit(2)
	}
	d := e.Describe(*fProperty)
	runs, budget := d.QuickRuns, d.QuickBudgetS
	if tier == "thorough" {
		runs, budget = d.ThoroughRuns, d.ThoroughBudget
	}
	if *fRuns > 0 {
		runs = *fRuns
	}
	if *fBudget > 0 {
		budget = *fBudget
	}
	if budget == 0 {
		budget = 600
	}
	workers := *fWorkers
	if workers <= 0 {
		workers = runtime.NumCPU()
	}
	if workers > runs {
		workers = runs
	}
	if *fWorker >= 0 {
		os.Exit(doWorker(e, *fProperty, tier, seed, cfg, runs, budget, *fWorker, workers, *fOut))
	}
	os.Exit(doParent(e, d, *fProperty, tier, seed, cfg, runs, budget, workers))
}

func doWorker(e Engine, property, tier string, seed uint64, cfg map[string]string, runs, budget, worker, workers int, out string) int {
	known, _ := loadKnown(property)
	res := workerResult{Worker: worker, Counters: map[string]int64{}, Known: map[string]string{}}
	start := time.Now()
	hashes := map[uint64]bool{}
	var dump *bufio.Writer
	if *fDump != "" {
		f, err := os.Create(fmt.Sprintf("%s.%d", *fDump, worker))
		if err != nil {
			fmt.Fprintln(os.Stderr, err)
			return 2
		}
		defer f.Close()
		dump = bufio.NewWriter(f)
		defer dump.Flush()
	}
	seenClass := map[string]bool{}
	curWarmup = &WarmupSpec{Workers: workers, Worker: worker}
	for i := worker; i < runs; i += workers {
		if time.Since(start) > time.Duration(budget)*time.Second {
			break
		}
		r := newRun(NewRandomStream(seed, uint64(i)), seed, uint64(i), property, tier, cfg, known)
		r.MaxDraws = 2000000
		v, fatal := safeExecute(e, r)
		if fatal != "" {
			res.Fatal = fatal
			break
		}
		res.Runs++
		if r.Overrun {
			res.Overruns++
		}
		for k, c := range r.Counters {
			res.Counters[k] += c
		}
		for k, m := range r.KnownHit {
			if _, ok := res.Known[k]; !ok {
				res.Known[k] = m
			}
		}
		res.Choices += int64(len(r.Rec))
		res.Ops += int64(r.Ops)
		res.SimTime += r.SimTime
		if r.NonTrivial() {
			res.NonTrivial++
			if len(hashes) < 250000 { // memory bound per worker; beyond it the distinct count is a lower bound
				hashes[r.AbsHash()] = true
			} else {
				res.Counters["distinct-count-capped-runs"]++
			}
		}
		if len(res.Samples) < 2 && r.NonTrivial() && len(r.Trace) > 0 {
			tr := r.Trace
			if len(tr) > 60 {
				tr = append(append([]string{}, tr[:60]...), fmt.Sprintf("... (%d more events)", r.logLines-60))
			}
			res.Samples = append(res.Samples, append([]string{fmt.Sprintf("seed=%d run=%d", seed, i)}, tr...))
		}
		if dump != nil {
			vc := "-"
			if v != nil {
				vc = v.Class
			}
			fmt.Fprintf(dump, "%d %016x %d %016x %s\n", i, r.LogHash(), len(r.Rec), r.AbsHash(), vc)
			if os.Getenv("VERIF_DUMP_RUN") == fmt.Sprint(i) { // selftest debugging: the labelled choices of one run
				var sb strings.Builder
				for _, c := range r.Rec {
					fmt.Fprintf(&sb, "%s %d/%d\n", c.L, c.V, c.N)
				}
				os.WriteFile(fmt.Sprintf("%s.rec%d", *fDump, i), []byte(sb.String()), 0o644)
			}
		}
		if v != nil && !seenClass[v.Class] {
			seenClass[v.Class] = true
			path, mv := minimiseAndWrite(e, r, v, cfg, known)
			res.Violations = append(res.Violations, foundViolation{V: *mv, Replay: path, Run: uint64(i)})
			break
		}
	}
	for h := range hashes {
		res.Hashes = append(res.Hashes, h)
	}
	sort.Slice(res.Hashes, func(i, j int) bool { return res.Hashes[i] < res.Hashes[j] })
	res.WallS = time.Since(start).Seconds()
	b, _ := json.Marshal(res)
	if out == "" {
		os.Stdout.Write(b)
	} else if err := os.WriteFile(out, b, 0o644); err != nil {
		fmt.Fprintln(os.Stderr, err)
		return 2
	}
	if res.Fatal != "" {
		fmt.Fprintln(os.Stderr, res.Fatal)
		return 2
	}
	return 0
}

func execReplay(e Engine, property, tier string, seed, run uint64, cfg map[string]string, known map[string]bool, values []int) (*Run, *Violation, string) {
	attempts := e.Describe(property).ReplayAttempts
	if attempts > 3 {
		attempts = 3 // minimisation: a few repetitions per candidate
	}
	for i := 1; ; i++ {
		r := newRun(NewReplayStream(values), seed, run, property, tier, cfg, known)
		r.MaxDraws = 2000000
		v, fatal := safeExecute(e, r)
		if v != nil || fatal != "" || i >= attempts {
			return r, v, fatal
		}
	}
}

// minimiseAndWrite shrinks the choice list by delta debugging while the same violation class of the
// same property recurs, then writes the replay file.
func minimiseAndWrite(e Engine, r *Run, v *Violation, cfg map[string]string, known map[string]bool) (string, *Violation) {
	orig := r.Values()
	best := append([]int{}, orig...)
	bestV := v
	bestTrace := r.Trace
	bestMarks := r.Marks
	bestRec := r.Rec
	budget := 60 * time.Second
	if v, err := strconv.Atoi(os.Getenv("VERIF_MINIMISE_S")); err == nil && v > 0 {
		budget = time.Duration(v) * time.Second // e.g. sensitivity sweeps that only need the verdict
	}
	deadline := time.Now().Add(budget)
	tries := 0
	// try executes a candidate; it is kept only if the same violation class recurs AND the candidate
	// is an improvement (shorter consumed list, or same length with a smaller value sum, or - for the
	// skip pass - any change), so that no pass can loop without progress.
	measure := func(v []int) (int, int) {
		sum := 0
		for _, x := range v {
			sum += x
		}
		return len(v), sum
	}
	anyChange := false
	try := func(cand []int) bool {
		if time.Now().After(deadline) || tries > 6000 {
			return false
		}
		tries++
		rr, vv, fatal := execReplay(e, r.Property, r.Tier, r.Seed, r.Index, cfg, known, cand)
		if fatal != "" || vv == nil || vv.Class != v.Class {
			return false
		}
		used := rr.Values()
		if tries > 1 && !anyChange {
			l0, s0 := measure(best)
			l1, s1 := measure(used)
			if !(l1 < l0 || (l1 == l0 && s1 < s0)) {
				return false
			}
		}
		// keep what was actually consumed (trailing unused choices vanish)
		best = used
		bestV = vv
		bestTrace = rr.Trace
		bestMarks = rr.Marks
		bestRec = rr.Rec
		return true
	}
	// sanity: replaying the original list must reproduce, otherwise report it unminimised
	if try(orig) {
		// 0k. per-run knobs first (run length, number of actors ...): halve, then zero
		for i := 0; i < len(best) && i < len(bestRec); i++ {
			if !strings.HasPrefix(bestRec[i].L, "knob.") || best[i] == 0 {
				continue
			}
			cand := append([]int{}, best...)
			cand[i] = 0
			if !try(cand) && best[i] > 1 {
				cand = append([]int{}, best...)
				cand[i] = best[i] / 2
				try(cand)
			}
		}
		// 0a. switch off single operations in place (no later draw moves), last to first, twice
		for pass := 0; pass < 2; pass++ {
			for i := len(best) - 1; i >= 0; i-- {
				if i < len(bestRec) && i < len(best) && strings.HasPrefix(bestRec[i].L, "skip.") && best[i] == 0 {
					cand := append([]int{}, best...)
					cand[i] = 1
					anyChange = true // switching an operation off raises a value by design
					try(cand)
					anyChange = false
				}
			}
		}
		// 0. delete whole segments (operations / scheduler steps) marked by the engine, last to first,
		//    until nothing more can be removed
		for pass := 0; pass < 4; pass++ {
			removed := false
			for i := len(bestMarks) - 1; i >= 0; i-- {
				if i >= len(bestMarks) {
					continue
				}
				start := bestMarks[i]
				end := len(best)
				if i+1 < len(bestMarks) {
					end = bestMarks[i+1]
				}
				if start >= end || end > len(best) {
					continue
				}
				cand := append(append([]int{}, best[:start]...), best[end:]...)
				if try(cand) {
					removed = true
				}
			}
			if !removed {
				break
			}
		}
		// 1. delete chunks
		for chunk := len(best) / 2; chunk >= 1; chunk /= 2 {
			for i := 0; i+chunk <= len(best); {
				cand := append(append([]int{}, best[:i]...), best[i+chunk:]...)
				if !try(cand) {
					i += chunk
				}
				if time.Now().After(deadline) {
					break
				}
			}
			if len(best) > 400 && chunk < 4 {
				break
			}
		}
		// 2. zero, then lower, single values
		for pass := 0; pass < 2; pass++ {
			for i := 0; i < len(best); i++ {
				if best[i] == 0 {
					continue
				}
				cand := append([]int{}, best...)
				cand[i] = 0
				if try(cand) {
					continue
				}
				if best[i] > 1 {
					cand = append([]int{}, best...)
					cand[i] = best[i] / 2
					if !try(cand) && best[i] > 2 {
						cand = append([]int{}, best...)
						cand[i] = best[i] - 1
						try(cand)
					}
				}
			}
		}
		// 3. segments again (lowered values often make more operations removable)
		for i := len(bestMarks) - 1; i >= 0; i-- {
			if i >= len(bestMarks) {
				continue
			}
			start := bestMarks[i]
			end := len(best)
			if i+1 < len(bestMarks) {
				end = bestMarks[i+1]
			}
			if start >= end || end > len(best) {
				continue
			}
			try(append(append([]int{}, best[:start]...), best[end:]...))
		}
		// 4. drop trailing zeros (equivalent to exhausted list)
		for len(best) > 0 && best[len(best)-1] == 0 {
			cand := best[:len(best)-1]
			if !try(append([]int{}, cand...)) {
				break
			}
		}
	}
	// labels for readability
	rr, _, _ := execReplay(e, r.Property, r.Tier, r.Seed, r.Index, cfg, known, best)
	labels := make([]string, 0, len(rr.Rec))
	for _, c := range rr.Rec {
		labels = append(labels, c.String())
	}
	rf := ReplayFile{Engine: e.Name(), Property: r.Property, Tier: r.Tier, Seed: r.Seed, Run: r.Index, Cfg: cfg,
		Choices: best, Labels: labels, Expect: *bestV, Trace: bestTrace, Original: len(orig), Warmup: curWarmup}
	if len(orig) != len(best) {
		rf.OriginalChoices = orig
	}
	dir := filepath.Join(verifRoot(), "replays")
	os.MkdirAll(dir, 0o755)
	path := filepath.Join(dir, fmt.Sprintf("%s-%d-%d.json", r.Property, r.Seed, r.Index))
	b, _ := json.MarshalIndent(rf, "", " ")
	os.WriteFile(path, b, 0o644)
	return path, bestV
}

func doReplay(e Engine, path string) int {
	b, err := os.ReadFile(path)
	if err != nil {
		fmt.Fprintln(os.Stderr, err)
		return 2
	}
	var rf ReplayFile
	if err := json.Unmarshal(b, &rf); err != nil {
		fmt.Fprintln(os.Stderr, err)
		return 2
	}
	known, _ := loadKnown(rf.Property)
	if os.Getenv("VERIF_IGNORE_KNOWN") != "" {
		known = map[string]bool{}
	}
	attempts := e.Describe(rf.Property).ReplayAttempts
	var r *Run
	var v *Violation
	replayOnce := func() int {
		for i := 1; ; i++ {
			r = newRun(NewReplayStream(rf.Choices), rf.Seed, rf.Run, rf.Property, rf.Tier, rf.Cfg, known)
			r.KeepLog = *fFullLog
			r.MaxDraws = 2000000
			var fatal string
			v, fatal = safeExecute(e, r)
			if fatal != "" {
				fmt.Fprintln(os.Stderr, fatal)
				return 2
			}
			if v != nil || i >= attempts {
				if attempts > 1 {
					fmt.Printf("repetition %d of at most %d (the property quantifies over repeated executions)\n", i, attempts)
				}
				return 0
			}
		}
	}
	if rc := replayOnce(); rc != 0 {
		return rc
	}
	if v == nil && rf.Warmup != nil && rf.Warmup.Workers > 0 && uint64(rf.Warmup.Worker) < rf.Run {
		// nothing in a fresh process: execute what the finding process had executed before, then replay again
		n := 0
		for i := uint64(rf.Warmup.Worker); i < rf.Run; i += uint64(rf.Warmup.Workers) {
			wr := newRun(NewRandomStream(rf.Seed, i), rf.Seed, i, rf.Property, rf.Tier, rf.Cfg, known)
			wr.MaxDraws = 2000000
			if _, fatal := safeExecute(e, wr); fatal != "" {
				fmt.Fprintln(os.Stderr, fatal)
				return 2
			}
			n++
		}
		if rc := replayOnce(); rc != 0 {
			return rc
		}
		if v == nil && len(rf.OriginalChoices) > 0 {
			// the minimised list may depend on state the minimiser's own executions left behind
			rf.Choices = rf.OriginalChoices
			if rc := replayOnce(); rc != 0 {
				return rc
			}
			if v != nil {
				fmt.Printf("UNMINIMISED: the minimised choice list does not fail outside the process that minimised it; the list as found (%d choices) does\n", len(rf.Choices))
			}
		}
		if v != nil {
			fmt.Printf("WARM-PROCESS: not reproduced in a fresh process, reproduced after the %d independent runs the finding process had executed before it (seed %d, runs %d, %d, ... < %d): the code under test keeps state in process memory across histories\n",
				n, rf.Seed, rf.Warmup.Worker, rf.Warmup.Worker+rf.Warmup.Workers, rf.Run)
		}
	}
	if *fFullLog {
		for _, l := range r.FullLog {
			fmt.Println(l)
		}
	} else {
		for _, l := range r.Trace {
			fmt.Println("  " + l)
		}
	}
	fmt.Printf("LOGHASH %016x choices=%d\n", r.LogHash(), len(r.Rec))
	if v == nil {
		fmt.Println("NOT-REPRODUCED: no violation on this tree")
		for k, m := range r.KnownHit {
			fmt.Printf("KNOWN-FINDING: property=%s %s (%s)\n", rf.Property, k, m)
		}
		return 0
	}
	fmt.Printf("REPRODUCED class=%s\n", v.Class)
	fmt.Printf("%s\n", v.String())
	fmt.Printf("VIOLATION property=%s replay=%s\n", v.Property, path)
	return 1
}

// selfCmd re-invokes this binary, keeping -test.* arguments (synctest engines are test binaries).
func selfCmd(args ...string) *exec.Cmd {
	var keep []string
	for _, a := range os.Args[1:] {
		if strings.HasPrefix(a, "-test.") {
			keep = append(keep, a)
		}
	}
	return exec.Command(os.Args[0], append(keep, args...)...)
}

func doParent(e Engine, d Description, property, tier string, seed uint64, cfg map[string]string, runs, budget, workers int) int {
	start := time.Now()
	_, knownDesc := loadKnown(property)
	tmp, err := os.MkdirTemp("", "verif-"+property+"-")
	if err != nil {
		fmt.Fprintln(os.Stderr, err)
		return 2
	}
	defer os.RemoveAll(tmp)
	type proc struct {
		cmd *exec.Cmd
		out string
		buf *bytes.Buffer
	}
	var procs []proc
	for w := 0; w < workers; w++ {
		out := filepath.Join(tmp, fmt.Sprintf("w%d.json", w))
		args := []string{"-property", property, "-tier", tier, "-seed", strconv.FormatUint(seed, 10),
			"-runs", strconv.Itoa(runs), "-budget", strconv.Itoa(budget), "-workers", strconv.Itoa(workers),
			"-worker", strconv.Itoa(w), "-out", out}
		if *fCfg != "" {
			args = append(args, "-cfg", *fCfg)
		}
		if *fDump != "" {
			args = append(args, "-dumplog", *fDump)
		}
		c := selfCmd(args...)
		buf := &bytes.Buffer{}
		c.Stdout = buf
		c.Stderr = buf
		if err := c.Start(); err != nil {
			fmt.Fprintln(os.Stderr, "cannot start worker:", err)
			return 2
		}
		procs = append(procs, proc{c, out, buf})
	}
	total := workerResult{Counters: map[string]int64{}, Known: map[string]string{}}
	hashes := map[uint64]bool{}
	harnessFault := ""
	for _, p := range procs {
		werr := p.cmd.Wait()
		b, rerr := os.ReadFile(p.out)
		var wr workerResult
		if rerr != nil || json.Unmarshal(b, &wr) != nil {
			harnessFault = fmt.Sprintf("worker produced no result (%v / %v):\n%s", werr, rerr, tail(p.buf.String(), 4000))
			continue
		}
		if wr.Fatal != "" {
			harnessFault = wr.Fatal
		}
		total.Runs += wr.Runs
		total.NonTrivial += wr.NonTrivial
		total.Choices += wr.Choices
		total.Ops += wr.Ops
		total.SimTime += wr.SimTime
		total.Overruns += wr.Overruns
		for k, c := range wr.Counters {
			total.Counters[k] += c
		}
		for k, m := range wr.Known {
			if _, ok := total.Known[k]; !ok {
				total.Known[k] = m
			}
		}
		for _, h := range wr.Hashes {
			hashes[h] = true
		}
		if len(total.Samples) < 3 {
			total.Samples = append(total.Samples, wr.Samples...)
		}
		total.Violations = append(total.Violations, wr.Violations...)
	}
	wall := time.Since(start).Seconds()

	// confirm each distinct violation class in a fresh process
	exit := 0
	confirmed := 0
	seen := map[string]bool{}
	sort.Slice(total.Violations, func(i, j int) bool { return total.Violations[i].Run < total.Violations[j].Run })
	for _, fv := range total.Violations {
		if seen[fv.V.Class] {
			continue
		}
		seen[fv.V.Class] = true
		c := selfCmd("-replay", fv.Replay)
		outb, _ := c.CombinedOutput()
		if c.ProcessState != nil && c.ProcessState.ExitCode() == 1 && strings.Contains(string(outb), "REPRODUCED class="+fv.V.Class) {
			fmt.Printf("%s\n", fv.V.String())
			fmt.Printf("VIOLATION property=%s replay=%s\n", property, fv.Replay)
			confirmed++
			exit = 1
		} else {
			harnessFault = fmt.Sprintf("violation %s (run %d) did not reproduce in a fresh process: harness determinism fault\n%s",
				fv.V.Class, fv.Run, tail(string(outb), 3000))
		}
	}
	knownKeys := make([]string, 0, len(total.Known))
	for k := range total.Known {
		knownKeys = append(knownKeys, k)
	}
	sort.Strings(knownKeys)
	for _, k := range knownKeys {
		fmt.Printf("KNOWN-FINDING: property=%s %s — %s (e.g. %s)\n", property, k, knownDesc[k], total.Known[k])
	}

	missing := []string{}
	if tier == "thorough" && total.Runs >= 200 {
		for _, p := range d.RequiredProbes {
			if total.Counters[p] == 0 {
				missing = append(missing, p)
			}
		}
	}

	if !*fNoEvid && total.Runs > 0 {
		writeEvidence(e, d, property, tier, seed, total, len(hashes), wall, confirmed, workers, missing)
	}
	fmt.Printf("%s %s %s: runs=%d nontrivial=%d distinct=%d ops=%d choices=%d wall=%.1fs violations=%d known=%d\n",
		e.Name(), property, tier, total.Runs, total.NonTrivial, len(hashes), total.Ops, total.Choices, wall, confirmed, len(total.Known))
	if *fVerbose {
		for _, k := range sortedKeys(total.Counters) {
			fmt.Printf("  %-48s %d\n", k, total.Counters[k])
		}
	}
	if harnessFault != "" {
		fmt.Fprintln(os.Stderr, "HARNESS-FAULT:", harnessFault)
		if exit == 0 {
			return 2
		}
	}
	if exit == 0 && total.Runs == 0 {
		fmt.Fprintln(os.Stderr, "HARNESS-FAULT: no runs executed")
		return 2
	}
	if exit == 0 && len(missing) > 0 {
		fmt.Fprintf(os.Stderr, "HARNESS-FAULT: reach probes stuck at zero in thorough run: %v\n", missing)
		return 2
	}
	return exit
}

func tail(s string, n int) string {
	if len(s) > n {
		return s[len(s)-n:]
	}
	return s
}

func writeEvidence(e Engine, d Description, property, tier string, seed uint64, t workerResult, distinct int, wall float64, violations, workers int, missing []string) {
	faults := map[string]int64{}
	probes := map[string]int64{}
	ops := map[string]int64{}
	other := map[string]int64{}
	for k, v := range t.Counters {
		switch {
		case strings.HasPrefix(k, "fault:"):
			faults[strings.TrimPrefix(k, "fault:")] = v
		case strings.HasPrefix(k, "probe:"):
			probes[strings.TrimPrefix(k, "probe:")] = v
		case strings.HasPrefix(k, "op:"):
			ops[strings.TrimPrefix(k, "op:")] = v
		default:
			other[k] = v
		}
	}
	samples := make([]interface{}, 0, len(t.Samples))
	for _, s := range t.Samples {
		samples = append(samples, s)
	}
	if len(samples) == 0 {
		samples = append(samples, "no non-trivial run in this batch")
	}
	cov := map[string]interface{}{
		"evaluations":         t.Runs,
		"distinct_nontrivial": distinct,
		"rule": d.Rule + "  A run is non-trivial when it issued >= 3 operations of which >= 1 changed state; runs are distinct when the " +
			"hash of their abstract trace (operation kind, outcome class, abstract state after every step) differs.",
		"samples":               samples,
		"exhaustive":            false,
		"nontrivial_runs":       t.NonTrivial,
		"operations":            t.Ops,
		"choices_drawn":         t.Choices,
		"runs_per_hour":         int64(float64(t.Runs) / wall * 3600),
		"seeds":                 1,
		"worker_processes":      workers,
		"simulated_time":        map[string]interface{}{"amount": t.SimTime, "unit": d.SimTimeUnit},
		"faults_fired":          faults,
		"reach_probes":          probes,
		"operation_kinds":       ops,
		"other_counters":        other,
		"components_real":       d.Real,
		"components_stub":       d.Stub,
		"engine":                e.Name(),
		"runs_hitting_draw_cap": t.Overruns,
	}
	if len(missing) > 0 {
		cov["probes_missing"] = missing
	}
	if len(t.Known) > 0 {
		cov["known_findings_hit"] = t.Known
	}
	for k, v := range d.Extra {
		cov[k] = v
	}
	ev := map[string]interface{}{
		"property_id": property,
		"tier":        tier,
		"seed":        int64(seed),
		"level":       "exploration",
		"coverage":    cov,
		"assumptions": d.Assumptions,
		"wall_s":      wall,
		"violations":  violations,
	}
	dir := filepath.Join(verifRoot(), "evidence")
	os.MkdirAll(dir, 0o755)
	b, _ := json.MarshalIndent(ev, "", " ")
	if err := os.WriteFile(filepath.Join(dir, property+".json"), b, 0o644); err != nil {
		fmt.Fprintln(os.Stderr, "cannot write evidence:", err)
	}
}
