// Package core holds the machinery shared by all simulation engines: the single choice stream that
// decides every nondeterministic step of a run, replay files, the minimiser, the parallel driver and
// the evidence writer.
package core

import (
	"fmt"
	"math/rand/v2"
)

// Choice is one recorded draw: label, number of alternatives and chosen value.
type Choice struct {
	L string `json:"l"`
	N int    `json:"n"`
	V int    `json:"v"`
}

// Stream is the only source of nondeterminism of a simulated run.  In random mode it draws from a PCG
// seeded from (seed, run index); in replay mode it returns the explicit values and falls back to 0
// ("simplest alternative") once the list is exhausted or a value is out of range.
type Stream struct {
	rng      *rand.Rand
	replay   []int
	isReplay bool
	pos      int
	Rec      []Choice
	MaxDraws int // hard cap against runaway runs (0 = none)
	Overrun  bool
	Marks    []int // segment boundaries (operation starts) recorded by the engine, used by the minimiser
}

// Mark records that a new logical segment (one operation / one scheduler step) starts at the
// current position of the stream.  Marks never influence the run.
func (s *Stream) Mark() {
	if n := len(s.Marks); n > 0 && s.Marks[n-1] == len(s.Rec) {
		return
	}
	s.Marks = append(s.Marks, len(s.Rec))
}

func NewRandomStream(seed uint64, run uint64) *Stream {
	return &Stream{rng: rand.New(rand.NewPCG(seed, run*0x9E3779B97F4A7C15+0xD1B54A32D192ED03))}
}

func NewReplayStream(values []int) *Stream {
	return &Stream{replay: values, isReplay: true}
}

// Choose returns a value in [0,n).  n<=1 returns 0 without consuming a draw.
func (s *Stream) Choose(n int, label string) int {
	if n <= 1 {
		return 0
	}
	if s.MaxDraws > 0 && len(s.Rec) >= s.MaxDraws {
		s.Overrun = true
		return 0
	}
	var v int
	if s.isReplay {
		if s.pos < len(s.replay) {
			v = s.replay[s.pos]
			if v < 0 || v >= n {
				v = 0
			}
		}
		s.pos++
	} else {
		v = s.rng.IntN(n)
	}
	s.Rec = append(s.Rec, Choice{label, n, v})
	return v
}

// Switch is a choice that is always 0 in random mode and only becomes 1 when a replay list says so.
// Engines put one in front of every generated operation ("skip this operation"): the minimiser can
// then remove an operation without shifting any of the later draws.
func (s *Stream) Switch(label string) bool {
	v := 0
	if s.isReplay {
		if s.pos < len(s.replay) && s.replay[s.pos] == 1 {
			v = 1
		}
		s.pos++
	}
	s.Rec = append(s.Rec, Choice{label, 2, v})
	return v == 1
}

// Values returns the recorded values only (what a replay file stores).
func (s *Stream) Values() []int {
	out := make([]int, len(s.Rec))
	for i, c := range s.Rec {
		out[i] = c.V
	}
	return out
}

// Bool is true with probability pct/100; value 0 (the shrink target) means false.
func (s *Stream) Bool(pct int, label string) bool {
	if pct <= 0 {
		return false
	}
	if pct >= 100 {
		return true
	}
	return s.Choose(100, label) >= 100-pct
}

// Range returns lo + Choose(hi-lo+1).
func (s *Stream) Range(lo, hi int, label string) int {
	if hi <= lo {
		return lo
	}
	return lo + s.Choose(hi-lo+1, label)
}

// Weighted picks an index with the given integer weights; index 0 is the shrink target when its weight > 0.
func (s *Stream) Weighted(w []int, label string) int {
	sum := 0
	for _, x := range w {
		if x > 0 {
			sum += x
		}
	}
	if sum == 0 {
		return 0
	}
	v := s.Choose(sum, label)
	for i, x := range w {
		if x <= 0 {
			continue
		}
		if v < x {
			return i
		}
		v -= x
	}
	panic("unreachable")
}

// Permute returns a PRNG-chosen permutation of 0..n-1 (identity when all draws are 0).
func (s *Stream) Permute(n int, label string) []int {
	p := make([]int, n)
	for i := range p {
		p[i] = i
	}
	for i := 0; i < n-1; i++ {
		j := i + s.Choose(n-i, label)
		p[i], p[j] = p[j], p[i]
	}
	return p
}

func (c Choice) String() string { return fmt.Sprintf("%s:%d/%d", c.L, c.V, c.N) }
