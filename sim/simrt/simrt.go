// Package simrt is the runtime behind the Layer-2 instrumentation (DESIGN.md section 3.3).  The
// generator cmd/yieldgen rewrites `go`, channel operations, `select` and listed map iterations of the
// provider's source files into calls to this package.  While a simulation is active every such
// operation is a scheduling point: the goroutine parks until the seeded scheduler resumes it, and
// which ready `select` case is taken is decided by the run's choice stream.  When no simulation is
// active every function is a plain pass-through.
package simrt

import (
	"bytes"
	"fmt"
	"reflect"
	"runtime"
	"sort"
	"strconv"
	"sync"
)

// Chooser is the part of the choice stream simrt needs.
type Chooser interface {
	Choose(n int, label string) int
}

const (
	stRunning = iota
	stParked
	stDone
)

// G is one simulated goroutine.
type G struct {
	ID     int
	Name   string
	Site   string // where it is parked
	state  int
	goid   uint64
	resume chan struct{}
	// Tag orders goroutines the runtime did not create (no simrt.Go): two of them may reach their first
	// scheduling point at the same moment, so their registration order is not reproducible; the names of
	// the channels they select on (NameChan) are.
	Tag string
}

var (
	mu      sync.Mutex
	enabled bool
	chooser Chooser
	byGoid  = map[uint64]*G{}
	all     []*G
	nextG   int
	objSeq  = map[interface{}]int{}
	nextObj int
	yields  int64
	chanTag = map[uintptr]string{}
)

// NameChan gives a channel a stable name (see G.Tag).
func NameChan(ch interface{}, name string) {
	mu.Lock()
	defer mu.Unlock()
	chanTag[reflect.ValueOf(ch).Pointer()] = name
}

// Enable starts a simulation: from now on instrumented operations park.
func Enable(c Chooser) {
	mu.Lock()
	defer mu.Unlock()
	enabled = true
	chooser = c
	byGoid = map[uint64]*G{}
	all = nil
	nextG = 0
	objSeq = map[interface{}]int{}
	nextObj = 0
	yields = 0
	chanTag = map[uintptr]string{}
}

// ReleaseAll ends the simulation: every parked goroutine continues freely (pass-through mode), so
// that services can be shut down and the bubble can end without leaked goroutines.
func ReleaseAll() {
	mu.Lock()
	enabled = false
	gs := all
	all = nil
	byGoid = map[uint64]*G{}
	mu.Unlock()
	for _, g := range gs {
		mu.Lock()
		parked := g.state == stParked
		g.state = stRunning
		mu.Unlock()
		if parked {
			close(g.resume)
		}
	}
}

func Active() bool {
	mu.Lock()
	defer mu.Unlock()
	return enabled
}

func Yields() int64 { mu.Lock(); defer mu.Unlock(); return yields }

func goid() uint64 {
	var buf [64]byte
	b := buf[:runtime.Stack(buf[:], false)]
	b = bytes.TrimPrefix(b, []byte("goroutine "))
	i := bytes.IndexByte(b, ' ')
	id, err := strconv.ParseUint(string(b[:i]), 10, 64)
	if err != nil {
		panic("simrt: cannot parse goroutine id")
	}
	return id
}

func current(name, tag string) *G {
	id := goid()
	mu.Lock()
	defer mu.Unlock()
	g := byGoid[id]
	if g == nil {
		nextG++
		g = &G{ID: nextG, Name: name, Tag: tag, goid: id, resume: make(chan struct{})}
		byGoid[id] = g
		all = append(all, g)
	}
	return g
}

// park blocks the calling goroutine until the scheduler resumes it.
func park(site string) { parkTag(site, "") }

func parkTag(site, tag string) {
	mu.Lock()
	if !enabled {
		mu.Unlock()
		return
	}
	mu.Unlock()
	g := current("ext", tag)
	mu.Lock()
	if !enabled {
		mu.Unlock()
		return
	}
	g.state = stParked
	g.Site = site
	yields++
	ch := g.resume
	mu.Unlock()
	<-ch
}

// Yield is an explicit scheduling point (used by harness tasks).
func Yield(site string) { park(site) }

// Runnable returns the goroutines parked at a scheduling point, in creation order.
func Runnable() []*G {
	mu.Lock()
	defer mu.Unlock()
	var out []*G
	for _, g := range all {
		if g.state == stParked {
			out = append(out, g)
		}
	}
	// tagged goroutines (see G.Tag) after the others, by tag; everything else in creation order
	sort.SliceStable(out, func(i, j int) bool {
		if (out[i].Tag != "") != (out[j].Tag != "") {
			return out[i].Tag == ""
		}
		return out[i].Tag < out[j].Tag
	})
	return out
}

// Resume lets exactly this goroutine run until its next scheduling point.
func Resume(g *G) {
	mu.Lock()
	if g.state != stParked {
		mu.Unlock()
		panic("simrt: resume of a goroutine that is not parked")
	}
	g.state = stRunning
	ch := g.resume
	g.resume = make(chan struct{})
	mu.Unlock()
	ch <- struct{}{}
}

func (g *G) String() string { return fmt.Sprintf("g%d(%s)@%s", g.ID, g.Name, g.Site) }

// Live returns the number of simulated goroutines that have not finished.
func Live() int {
	mu.Lock()
	defer mu.Unlock()
	n := 0
	for _, g := range all {
		if g.state != stDone {
			n++
		}
	}
	return n
}

// Go replaces the go statement: the new goroutine starts parked.
func Go(name string, f func()) {
	mu.Lock()
	on := enabled
	mu.Unlock()
	if !on {
		go f()
		return
	}
	mu.Lock()
	nextG++
	g := &G{ID: nextG, Name: name, resume: make(chan struct{}), state: stParked, Site: "start"}
	all = append(all, g)
	yields++
	ch := g.resume
	mu.Unlock()
	go func() {
		id := goid()
		mu.Lock()
		g.goid = id
		byGoid[id] = g
		mu.Unlock()
		<-ch
		defer func() {
			mu.Lock()
			g.state = stDone
			delete(byGoid, id)
			mu.Unlock()
		}()
		f()
	}()
}

// GoR is Go for a method call: the receiver is remembered in creation order so that maps keyed by
// such objects can be iterated deterministically (OrderedKeys).
func GoR(recv interface{}, name string, f func()) {
	Register(recv)
	Go(name, f)
}

// Register assigns the object (a pointer) the next creation sequence number.
func Register(obj interface{}) {
	if obj == nil {
		return
	}
	if k := reflect.TypeOf(obj).Kind(); k != reflect.Ptr {
		return
	}
	mu.Lock()
	defer mu.Unlock()
	if !enabled {
		return
	}
	if _, ok := objSeq[obj]; !ok {
		nextObj++
		objSeq[obj] = nextObj
	}
}

// OrderedKeys returns the keys of m in an order decided by the choice stream (a permutation of the
// creation order), replacing Go's randomised map iteration.
func OrderedKeys[K comparable, V any](m map[K]V) []K {
	keys := make([]K, 0, len(m))
	for k := range m {
		keys = append(keys, k)
	}
	mu.Lock()
	on := enabled
	c := chooser
	if on {
		sort.Slice(keys, func(i, j int) bool { return objSeq[interface{}(keys[i])] < objSeq[interface{}(keys[j])] })
		for _, k := range keys {
			if _, ok := objSeq[interface{}(k)]; !ok {
				mu.Unlock()
				panic(fmt.Sprintf("simrt: map key %v was never registered: iteration order would not be reproducible", k))
			}
		}
	}
	mu.Unlock()
	if on && len(keys) > 1 {
		for i := 0; i < len(keys)-1; i++ {
			j := i + c.Choose(len(keys)-i, "simrt.maporder")
			keys[i], keys[j] = keys[j], keys[i]
		}
	}
	return keys
}

// ------------------------------------------------------------------ channel operations

// Send returns the function performing the send, so that the element type is inferred from the
// channel alone and the value is converted by ordinary assignability (ch <- v).
func Send[T any](site string, ch chan<- T) func(T) {
	return func(v T) {
		park(site)
		ch <- v
		park(site + "+")
	}
}

func Recv[T any](site string, ch <-chan T) T {
	park(site)
	v := <-ch
	park(site + "+")
	return v
}

func Recv2[T any](site string, ch <-chan T) (T, bool) {
	park(site)
	v, ok := <-ch
	park(site + "+")
	return v, ok
}

func Close[T any](site string, ch chan<- T) {
	park(site)
	close(ch)
}

// ------------------------------------------------------------------ select

type Select struct {
	site       string
	cases      []reflect.SelectCase
	setters    []func(reflect.Value, bool)
	hasDefault bool
}

type RecvCase[T any] struct {
	Val T
	OK  bool
}

func NewSelect(site string) *Select { return &Select{site: site} }

func SelRecv[T any](s *Select, ch <-chan T) *RecvCase[T] {
	c := &RecvCase[T]{}
	s.cases = append(s.cases, reflect.SelectCase{Dir: reflect.SelectRecv, Chan: reflect.ValueOf(ch)})
	s.setters = append(s.setters, func(v reflect.Value, ok bool) {
		c.OK = ok
		if !v.IsValid() {
			return
		}
		if k := v.Kind(); (k == reflect.Interface || k == reflect.Ptr || k == reflect.Map || k == reflect.Slice || k == reflect.Chan || k == reflect.Func) && v.IsNil() {
			return
		}
		c.Val = v.Interface().(T)
	})
	return c
}

func SelSend[T any](s *Select, ch chan<- T) func(T) {
	return func(v T) {
		rv := reflect.ValueOf(&v).Elem() // keeps the static type T also for nil interface values
		s.cases = append(s.cases, reflect.SelectCase{Dir: reflect.SelectSend, Chan: reflect.ValueOf(ch), Send: rv})
		s.setters = append(s.setters, nil)
	}
}

func (s *Select) Default() { s.hasDefault = true }

// Run performs the select and returns the index of the chosen case (-1 = default).
func (s *Select) Run() int {
	mu.Lock()
	on := enabled
	c := chooser
	mu.Unlock()
	if !on {
		cases := s.cases
		if s.hasDefault {
			cases = append(append([]reflect.SelectCase{}, cases...), reflect.SelectCase{Dir: reflect.SelectDefault})
		}
		i, v, ok := reflect.Select(cases)
		if s.hasDefault && i == len(s.cases) {
			return -1
		}
		if s.setters[i] != nil {
			s.setters[i](v, ok)
		}
		return i
	}
	tag := ""
	mu.Lock()
	for _, cs := range s.cases {
		if cs.Chan.IsValid() && !cs.Chan.IsNil() {
			if n, ok := chanTag[cs.Chan.Pointer()]; ok {
				tag += n + ","
			}
		}
	}
	mu.Unlock()
	parkTag(s.site, tag)
	// poll the cases in an order chosen by the choice stream; commit the first that is ready
	n := len(s.cases)
	order := make([]int, n)
	for i := range order {
		order[i] = i
	}
	for i := 0; i < n-1; i++ {
		j := i + c.Choose(n-i, "simrt.select")
		order[i], order[j] = order[j], order[i]
	}
	for _, i := range order {
		if !s.cases[i].Chan.IsValid() || s.cases[i].Chan.IsNil() {
			continue
		}
		chosen, v, ok := reflect.Select([]reflect.SelectCase{s.cases[i], {Dir: reflect.SelectDefault}})
		if chosen == 0 {
			if s.setters[i] != nil {
				s.setters[i](v, ok)
			}
			return i
		}
	}
	if s.hasDefault {
		return -1
	}
	// nothing ready: block for real (the goroutine is then durably blocked, the scheduler moves on);
	// whoever makes a case ready performs exactly one channel operation before its next scheduling
	// point, so exactly one case can have become ready when we wake up
	i, v, ok := reflect.Select(s.cases)
	if s.setters[i] != nil {
		s.setters[i](v, ok)
	}
	park(s.site + "+")
	return i
}
