#!/bin/bash
# Regenerates go.mod / go.sum of the harness module from /repo's current go.mod (replace block copied).
set -e
cd "$(dirname "$0")"
REPO=${VERIF_REPO:-/repo}
{
  sed "s#=> /repo#=> $REPO#" go.mod.head
  sed -n '/^replace/,$p' "$REPO/go.mod"
  if [ -n "$VERIF_LIFECYCLE_DIR" ]; then echo "replace github.com/boz/go-lifecycle => $VERIF_LIFECYCLE_DIR"; fi
} > go.mod.new
if ! cmp -s go.mod.new go.mod 2>/dev/null; then mv go.mod.new go.mod; else rm go.mod.new; fi
if [ ! -f go.sum ] || [ "$REPO/go.sum" -nt go.sum ]; then
  cat "$REPO/go.sum" > go.sum
  if [ -f go.sum.extra ]; then cat go.sum.extra >> go.sum; fi
fi
