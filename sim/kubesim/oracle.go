package kubesim

import (
	"fmt"
	"regexp"
	"sort"
	"strings"

	appsv1 "k8s.io/api/apps/v1"
	corev1 "k8s.io/api/core/v1"
	netv1 "k8s.io/api/networking/v1"
	"k8s.io/apimachinery/pkg/api/resource"

	"github.com/ovrclk/akash/manifest"
	akashv1 "github.com/ovrclk/akash/pkg/apis/akash.network/v1"

	"verifsim/core"
)

// The oracle is derived from the text of property C11 and the Kubernetes API semantics of the object
// kinds involved.  It never calls the provider's builders or helpers; the only thing shared with the
// code under test are the API types and the label keys (read from the generated objects).

const (
	lblNamespace = "akash.network/namespace"
	lblService   = "akash.network/manifest-service"
)

var dnsLabelRE = regexp.MustCompile(`^[a-z0-9]([-a-z0-9]*[a-z0-9])?$`)

func validDNSLabel(s string) bool { return len(s) >= 1 && len(s) <= 63 && dnsLabelRE.MatchString(s) }

func labelsOf(obj interface{}) map[string]string {
	switch o := obj.(type) {
	case *corev1.Namespace:
		return o.Labels
	case *appsv1.Deployment:
		return o.Labels
	case *corev1.Service:
		return o.Labels
	case *netv1.Ingress:
		return o.Labels
	case *netv1.NetworkPolicy:
		return o.Labels
	case *akashv1.Manifest:
		return o.Labels
	}
	return nil
}

// belongsTo: may an object with this dump key be touched by an operation on lease l?
func belongsTo(l *lease, key string) bool {
	p := strings.SplitN(key, "|", 3)
	kind, ns, name := p[0], p[1], p[2]
	switch kind {
	case "Namespace":
		return name == l.ns
	case "Manifest":
		// by design the Manifest custom resource lives in the provider's namespace under the name ns(l)
		return ns == providerNS && name == l.ns
	}
	return ns == l.ns
}

// check runs after every call of the code under test for lease l.
func (s *sim) check(l *lease, before, after *dump, diff []string) *core.Violation {
	r := s.r
	// clause 6a: every mutating API request of the operation addresses the lease's own namespace
	for _, a := range s.c.actions {
		if !a.mutating() || s.noReqCheck {
			continue
		}
		ok := false
		switch a.resource {
		case "namespaces":
			ok = a.ns == "" && a.name == l.ns
		case "manifests":
			ok = a.ns == providerNS && a.name == l.ns
		default:
			ok = a.ns == l.ns
		}
		if !ok {
			if v := r.Flag("C11/isolation-request-outside-lease-namespace", "operation on lease %s (namespace %s) issued %q", shortLid(l.id), l.ns, a.String()); v != nil {
				return v
			}
		}
	}
	// clause 6b: nothing outside ns(l) differs between the dumps taken before and after
	for _, k := range diff {
		if !belongsTo(l, k[1:]) {
			if v := r.Flag("C11/isolation-foreign-object-changed", "operation on lease %s (namespace %s) changed %s", shortLid(l.id), l.ns, k); v != nil {
				return v
			}
		}
	}
	return s.scan(after)
}

type bucket struct {
	deps []*appsv1.Deployment
	svcs []*corev1.Service
	ings []*netv1.Ingress
	pols []*netv1.NetworkPolicy
}

// scan evaluates clauses 1-5 over every object currently in the cluster.
func (s *sim) scan(d *dump) *core.Violation {
	r := s.r
	var all []nsInfo
	buckets := map[string]*bucket{}
	for _, o := range d.objs {
		if o.kind == "Namespace" {
			all = append(all, nsInfo{o.name, labelsOf(o.obj)})
		}
		if s.c.seeded[o.key()] {
			continue
		}
		switch o.kind {
		case "Namespace":
			if !validDNSLabel(o.name) {
				if v := r.Flag("C11/namespace-name-invalid", "namespace %q is not a DNS-1123 label", o.name); v != nil {
					return v
				}
			}
			if s.byNS[o.name] == nil {
				if v := r.Flag("C11/namespace-not-derived-from-lease", "namespace %q is not the namespace of any lease of this run (%s)", o.name, s.leaseList()); v != nil {
					return v
				}
			}
		case "Manifest":
			if o.ns != providerNS || s.byNS[o.name] == nil {
				if v := r.Flag("C11/manifest-resource-misnamed", "Manifest resource %s/%s is not named after a lease namespace in the provider namespace", o.ns, o.name); v != nil {
					return v
				}
			}
		default:
			if s.byNS[o.ns] == nil {
				if v := r.Flag("C11/object-outside-lease-namespace", "%s %s/%s lives in a namespace that is not derived from any lease of this run", o.kind, o.ns, o.name); v != nil {
					return v
				}
				continue
			}
			b := buckets[o.ns]
			if b == nil {
				b = &bucket{}
				buckets[o.ns] = b
			}
			switch x := o.obj.(type) {
			case *appsv1.Deployment:
				b.deps = append(b.deps, x)
			case *corev1.Service:
				b.svcs = append(b.svcs, x)
			case *netv1.Ingress:
				b.ings = append(b.ings, x)
			case *netv1.NetworkPolicy:
				b.pols = append(b.pols, x)
			}
		}
	}
	for _, l := range s.leases {
		b := buckets[l.ns]
		if b == nil {
			continue
		}
		if v := s.checkLease(l, b, all); v != nil {
			return v
		}
	}
	return nil
}

func (s *sim) leaseList() string {
	var out []string
	for _, l := range s.leases {
		out = append(out, shortLid(l.id)+"="+l.ns)
	}
	return strings.Join(out, " ")
}

func (s *sim) checkLease(l *lease, b *bucket, all []nsInfo) *core.Violation {
	r := s.r
	where := fmt.Sprintf("lease %s ns %s", shortLid(l.id), l.ns)
	names := serviceNames(l.attempts)
	flagStale := func(kind, name, svc string) *core.Violation {
		return r.Flag("C11/workload-not-in-manifest", "%s: %s %q (service %q) belongs to no service of the manifest(s) in force %v", where, kind, name, svc, sortedStrings(names))
	}
	var pods []pod
	for _, dep := range b.deps {
		svcName := dep.Name
		if !names[svcName] {
			if v := flagStale("deployment", dep.Name, svcName); v != nil {
				return v
			}
		}
		tl := dep.Spec.Template.Labels
		podSvc := svcName
		if x := tl[lblService]; x != "" {
			podSvc = x
		}
		pods = append(pods, pod{owner: dep.Name, service: podSvc, labels: tl})
		if v := s.checkDeployment(l, dep, where); v != nil {
			return v
		}
	}
	for _, svc := range b.svcs {
		// a Service selects pods of its own namespace only, provided it has a selector (without one its
		// endpoints are free-form) and is not an ExternalName / external-IP service
		if len(svc.Spec.Selector) == 0 || svc.Spec.Type == corev1.ServiceTypeExternalName || svc.Spec.ExternalName != "" || len(svc.Spec.ExternalIPs) > 0 {
			if v := r.Flag("C11/service-not-confined", "%s: service %q has selector %v type %q externalName %q externalIPs %v", where, svc.Name, svc.Spec.Selector, svc.Spec.Type, svc.Spec.ExternalName, svc.Spec.ExternalIPs); v != nil {
				return v
			}
		}
		if x, ok := svc.Spec.Selector[lblNamespace]; ok && x != l.ns {
			if v := r.Flag("C11/service-not-confined", "%s: service %q selects on %s=%s, another lease's namespace", where, svc.Name, lblNamespace, x); v != nil {
				return v
			}
		}
		if x := svc.Spec.Selector[lblService]; x != "" && !names[x] {
			if v := flagStale("service", svc.Name, x); v != nil {
				return v
			}
		}
	}
	for _, ing := range b.ings {
		if x := ing.Labels[lblService]; x != "" && !names[x] {
			if v := flagStale("ingress", ing.Name, x); v != nil {
				return v
			}
		}
		// ingress backends are namespace-local by construction as long as they are Service backends
		bad := ""
		if ing.Spec.DefaultBackend != nil && ing.Spec.DefaultBackend.Service == nil {
			bad = "default backend is not a service"
		}
		for _, rule := range ing.Spec.Rules {
			if rule.HTTP == nil {
				continue
			}
			for _, p := range rule.HTTP.Paths {
				if p.Backend.Service == nil || p.Backend.Service.Name == "" {
					bad = fmt.Sprintf("host %q path %q has no service backend", rule.Host, p.Path)
				}
			}
		}
		if bad != "" {
			if v := r.Flag("C11/ingress-backend-not-service", "%s: ingress %q: %s", where, ing.Name, bad); v != nil {
				return v
			}
		}
	}
	if s.settings.NetworkPoliciesEnabled {
		allowed := func(service string) (map[portKey]bool, map[portKey]bool) {
			cont, ext := map[portKey]bool{}, map[portKey]bool{}
			for _, g := range l.attempts {
				for _, svc := range g.Services {
					if svc.Name != service {
						continue
					}
					for _, e := range svc.Expose {
						if !e.Global {
							continue
						}
						cont[portKey{string(e.Proto), int(e.Port)}] = true
						ext[portKey{string(e.Proto), int(externalPort(e))}] = true
					}
				}
			}
			return cont, ext
		}
		fs, extOnly := evalNetPol(l.ns, b.pols, pods, all, s.strict, allowed)
		if extOnly > 0 {
			r.Count("probe:netpol-port-is-external-not-container")
		}
		sort.SliceStable(fs, func(i, j int) bool { return fs[i].class < fs[j].class })
		for _, f := range fs {
			if v := r.Flag("C11/"+f.class, "%s: %s", where, f.msg); v != nil {
				return v
			}
		}
	}
	return nil
}

func (s *sim) checkDeployment(l *lease, dep *appsv1.Deployment, where string) *core.Violation {
	r := s.r
	ps := dep.Spec.Template.Spec
	if ps.AutomountServiceAccountToken == nil || *ps.AutomountServiceAccountToken {
		if v := r.Flag("C11/service-account-token-mounted", "%s: deployment %q: automountServiceAccountToken is not false", where, dep.Name); v != nil {
			return v
		}
	}
	for _, vol := range ps.Volumes {
		if vol.Projected != nil {
			for _, src := range vol.Projected.Sources {
				if src.ServiceAccountToken != nil {
					if v := r.Flag("C11/service-account-token-mounted", "%s: deployment %q projects a service-account token (volume %s)", where, dep.Name, vol.Name); v != nil {
						return v
					}
				}
			}
		}
	}
	var cs []corev1.Container
	cs = append(cs, ps.InitContainers...)
	cs = append(cs, ps.Containers...)
	for _, ec := range ps.EphemeralContainers {
		cs = append(cs, corev1.Container{Name: ec.Name, SecurityContext: ec.SecurityContext, Resources: ec.Resources})
	}
	if len(cs) == 0 {
		return nil
	}
	// the manifests this deployment may stem from, latest last
	var cands []manifest.Service
	for _, g := range l.attempts {
		for _, svc := range g.Services {
			if svc.Name == dep.Name {
				cands = append(cands, svc)
			}
		}
	}
	for _, c := range cs {
		sc := c.SecurityContext
		if sc != nil && sc.Privileged != nil && *sc.Privileged {
			if v := r.Flag("C11/container-privileged", "%s: deployment %q container %q is privileged", where, dep.Name, c.Name); v != nil {
				return v
			}
		}
		if sc == nil || sc.AllowPrivilegeEscalation == nil || *sc.AllowPrivilegeEscalation {
			if v := r.Flag("C11/container-may-escalate", "%s: deployment %q container %q: allowPrivilegeEscalation is not false", where, dep.Name, c.Name); v != nil {
				return v
			}
		}
		if len(cands) == 0 {
			continue // already reported as workload-not-in-manifest
		}
		class, msg := "", ""
		for _, cand := range cands {
			class, msg = s.checkResources(dep, c, cand)
			if class == "" {
				break
			}
		}
		if class != "" {
			if v := r.Flag("C11/"+class, "%s: deployment %q container %q: %s", where, dep.Name, c.Name, msg); v != nil {
				return v
			}
		}
	}
	return nil
}

// checkResources compares one container with the resource unit of one manifest service.
func (s *sim) checkResources(dep *appsv1.Deployment, c corev1.Container, svc manifest.Service) (string, string) {
	type want struct {
		name   corev1.ResourceName
		leased uint64
		commit ratio
		milli  bool
	}
	wants := []want{
		{corev1.ResourceCPU, svc.Resources.CPU.Units.Value(), s.commit[0], true},
		{corev1.ResourceMemory, svc.Resources.Memory.Quantity.Value(), s.commit[1], false},
		{corev1.ResourceEphemeralStorage, svc.Resources.Storage.Quantity.Value(), s.commit[2], false},
	}
	known := map[corev1.ResourceName]bool{}
	for _, w := range wants {
		known[w.name] = true
		var leasedQ *resource.Quantity
		if w.milli {
			leasedQ = resource.NewMilliQuantity(int64(w.leased), resource.DecimalSI)
		} else {
			leasedQ = resource.NewQuantity(int64(w.leased), resource.DecimalSI)
		}
		lim, ok := c.Resources.Limits[w.name]
		if !ok {
			return "limits-not-equal-leased", fmt.Sprintf("no %s limit, leased %s", w.name, leasedQ)
		}
		if lim.Cmp(*leasedQ) != 0 {
			return "limits-not-equal-leased", fmt.Sprintf("%s limit %s, leased %s", w.name, lim.String(), leasedQ)
		}
		req, ok := c.Resources.Requests[w.name]
		if !ok {
			continue // API default: request = limit
		}
		if req.Cmp(lim) > 0 {
			return "requests-exceed-limits", fmt.Sprintf("%s request %s > limit %s (commit level %v)", w.name, req.String(), lim.String(), w.commit)
		}
		var rv int64
		if w.milli {
			rv = req.MilliValue()
		} else {
			rv = req.Value()
		}
		if rv < 1 {
			return "requests-below-one", fmt.Sprintf("%s request %s < 1 (leased %s, commit level %v)", w.name, req.String(), leasedQ, w.commit)
		}
		if w.commit.num > w.commit.den {
			// requests == max(1, round(leased/commit)): the rounding direction is not fixed by the
			// property, so any value between floor and ceil of the exact quotient is accepted.
			lo := w.leased * w.commit.den / w.commit.num
			hi := lo
			if (w.leased*w.commit.den)%w.commit.num != 0 {
				hi++
			}
			if lo < 1 {
				lo = 1
			}
			if hi < 1 {
				hi = 1
			}
			if uint64(rv) < lo || uint64(rv) > hi {
				return "requests-not-leased-over-commit", fmt.Sprintf("%s request %s is not leased %s / commit level %v (expected %d..%d)", w.name, req.String(), leasedQ, w.commit, lo, hi)
			}
		} else if w.commit.num == w.commit.den && req.Cmp(lim) != 0 {
			return "requests-not-leased-over-commit", fmt.Sprintf("%s request %s differs from leased %s at commit level 1", w.name, req.String(), leasedQ)
		}
	}
	var extra []string
	for k := range c.Resources.Limits {
		if !known[k] {
			extra = append(extra, string(k))
		}
	}
	for k := range c.Resources.Requests {
		if !known[k] {
			extra = append(extra, string(k))
		}
	}
	if len(extra) > 0 {
		sort.Strings(extra)
		return "limits-not-equal-leased", fmt.Sprintf("resources %v are not part of the lease", extra)
	}
	replicas := int32(1)
	if dep.Spec.Replicas != nil {
		replicas = *dep.Spec.Replicas
	}
	if uint32(replicas) > svc.Count || replicas < 0 {
		return "replicas-exceed-leased-count", fmt.Sprintf("replicas %d, leased count %d", replicas, svc.Count)
	}
	return "", ""
}
