package kubesim

import (
	"fmt"
	"net/netip"

	corev1 "k8s.io/api/core/v1"
	netv1 "k8s.io/api/networking/v1"
	metav1 "k8s.io/apimachinery/pkg/apis/meta/v1"
	"k8s.io/apimachinery/pkg/labels"
	"k8s.io/apimachinery/pkg/util/intstr"
)

// The network-policy oracle evaluates the policies found in a lease namespace with Kubernetes
// NetworkPolicy semantics (additive allow rules over the pods a policy selects; a pod selected by no
// policy of a direction is not isolated in that direction) against the namespaces that exist in the
// cluster.  It is written from the NetworkPolicy API documentation and the property text; it does
// not use the provider's builders.

const (
	ingressNS    = "ingress-nginx"
	ingressLabel = "app.kubernetes.io/name"
	ingressValue = "ingress-nginx"
)

var privateV4 = []netip.Prefix{
	netip.MustParsePrefix("10.0.0.0/8"),
	netip.MustParsePrefix("172.16.0.0/12"),
	netip.MustParsePrefix("192.168.0.0/16"),
}
var privateV6 = []netip.Prefix{netip.MustParsePrefix("fc00::/7")}

func contains(outer, inner netip.Prefix) bool {
	return outer.Bits() <= inner.Bits() && outer.Contains(inner.Addr())
}

// uncovered: is some address of x not covered by any of the except prefixes?
func uncovered(x netip.Prefix, except []netip.Prefix) bool {
	inside := false
	for _, e := range except {
		if contains(e, x) {
			return false
		}
		if contains(x, e) {
			inside = true
		}
	}
	if !inside || x.Bits() >= x.Addr().BitLen() {
		return true
	}
	// split x in halves
	lo := netip.PrefixFrom(x.Addr(), x.Bits()+1).Masked()
	b := x.Masked().Addr().AsSlice()
	bit := x.Bits()
	b[bit/8] |= 1 << (7 - uint(bit%8))
	hiAddr, _ := netip.AddrFromSlice(b)
	hi := netip.PrefixFrom(hiAddr, x.Bits()+1)
	return uncovered(lo, except) || uncovered(hi, except)
}

// admitsPrivate reports whether "cidr minus except" contains an address of a private range.
func admitsPrivate(cidr string, except []string) (bool, string, error) {
	c, err := netip.ParsePrefix(cidr)
	if err != nil {
		return false, "", fmt.Errorf("unparsable cidr %q", cidr)
	}
	c = c.Masked()
	var ex []netip.Prefix
	for _, e := range except {
		p, err := netip.ParsePrefix(e)
		if err != nil {
			return false, "", fmt.Errorf("unparsable except %q", e)
		}
		ex = append(ex, p.Masked())
	}
	priv := privateV4
	if c.Addr().Is6() {
		priv = privateV6
	}
	for _, p := range priv {
		var x netip.Prefix
		switch {
		case contains(c, p):
			x = p
		case contains(p, c):
			x = c
		default:
			continue
		}
		if uncovered(x, ex) {
			return true, p.String(), nil
		}
	}
	return false, "", nil
}

type portKey struct {
	proto string
	port  int
}

func (p portKey) String() string { return fmt.Sprintf("%s/%d", p.proto, p.port) }

func selects(sel *metav1.LabelSelector, set map[string]string) (bool, error) {
	s, err := metav1.LabelSelectorAsSelector(sel)
	if err != nil {
		return false, err
	}
	return s.Matches(labels.Set(set)), nil
}

func emptySelector(sel metav1.LabelSelector) bool {
	return len(sel.MatchLabels) == 0 && len(sel.MatchExpressions) == 0
}

func hasType(p *netv1.NetworkPolicy, t netv1.PolicyType) bool {
	if len(p.Spec.PolicyTypes) == 0 {
		// API default: Ingress always, Egress when egress rules are present
		return t == netv1.PolicyTypeIngress || len(p.Spec.Egress) > 0
	}
	for _, x := range p.Spec.PolicyTypes {
		if x == t {
			return true
		}
	}
	return false
}

// rulePorts returns the numeric ports of a rule; ok=false when the rule has no port restriction
// (all ports) or uses a named port (cannot be bounded).
func rulePorts(ports []netv1.NetworkPolicyPort) ([]portKey, bool) {
	if len(ports) == 0 {
		return nil, false
	}
	var out []portKey
	for _, p := range ports {
		proto := string(corev1.ProtocolTCP)
		if p.Protocol != nil {
			proto = string(*p.Protocol)
		}
		if p.Port == nil || p.Port.Type != intstr.Int {
			return nil, false
		}
		out = append(out, portKey{proto, p.Port.IntValue()})
	}
	return out, true
}

type nsInfo struct {
	name   string
	labels map[string]string
}

type pod struct {
	owner   string // deployment name
	service string // manifest service (deployment name)
	labels  map[string]string
}

type netFinding struct {
	class string
	msg   string
}

// outsideNamespaces returns the namespaces other than self that a peer admits (nil, false) = peer is
// an ipBlock.
func peerNamespaces(peer netv1.NetworkPolicyPeer, self string, all []nsInfo) ([]string, error) {
	if peer.NamespaceSelector == nil {
		// podSelector only: pods of the policy's own namespace
		return nil, nil
	}
	var out []string
	for _, n := range all {
		ok, err := selects(peer.NamespaceSelector, n.labels)
		if err != nil {
			return nil, err
		}
		if ok && n.name != self {
			out = append(out, n.name)
		}
	}
	return out, nil
}

// evalNetPol checks the policies of lease namespace self against the pods (pod templates) found in
// it.  allowed(service) = numeric ports the tenant exposed globally for that service.
//
// allowed(service) returns the container ports of the service's global exposes and the external
// ("as") ports of those exposes.  A NetworkPolicy port is matched against the pod (container) port, so
// strictly only the former are "ports the tenant exposed globally"; the property text does not say
// which number is meant, hence a policy port that equals the external port of a global expose is
// accepted (and counted in extOnly) unless strict is set.
func evalNetPol(self string, pols []*netv1.NetworkPolicy, pods []pod, all []nsInfo, strict bool,
	allowed func(service string) (container, external map[portKey]bool)) (out []netFinding, extOnly int) {
	add := func(class, format string, a ...interface{}) {
		out = append(out, netFinding{class, fmt.Sprintf(format, a...)})
	}
	// default deny: policies selecting every pod of the namespace for ingress and for egress
	defIn, defEg := false, false
	for _, p := range pols {
		if emptySelector(p.Spec.PodSelector) {
			defIn = defIn || hasType(p, netv1.PolicyTypeIngress)
			defEg = defEg || hasType(p, netv1.PolicyTypeEgress)
		}
	}
	if len(pods) > 0 && !(defIn && defEg) {
		add("netpol-no-default-deny", "namespace %s runs pods of %d deployment(s) but has no policy selecting all pods for ingress=%v egress=%v: everything is admitted (policies present: %d)",
			self, len(pods), defIn, defEg, len(pols))
	}
	for _, pd := range pods {
		inIso, egIso := false, false
		for _, p := range pols {
			sel, err := selects(&p.Spec.PodSelector, pd.labels)
			if err != nil {
				add("netpol-unparsable", "policy %s/%s: %v", self, p.Name, err)
				continue
			}
			if !sel {
				continue
			}
			if hasType(p, netv1.PolicyTypeIngress) {
				inIso = true
				for ri, rule := range p.Spec.Ingress {
					// who is admitted from outside the namespace by this rule?
					var outside []string
					if len(rule.From) == 0 {
						outside = append(outside, "anywhere")
					}
					for _, peer := range rule.From {
						if peer.IPBlock != nil {
							outside = append(outside, "ipBlock "+peer.IPBlock.CIDR)
							continue
						}
						nss, err := peerNamespaces(peer, self, all)
						if err != nil {
							add("netpol-unparsable", "policy %s/%s: %v", self, p.Name, err)
							continue
						}
						for _, n := range nss {
							if n == ingressNS {
								// the ingress controller: admitted by the property
								continue
							}
							outside = append(outside, "namespace "+n)
						}
					}
					if len(outside) == 0 {
						continue
					}
					ports, bounded := rulePorts(rule.Ports)
					if !bounded {
						add("netpol-ingress-from-outside", "policy %s/%s ingress rule %d admits %v to pods of service %s on all/named ports", self, p.Name, ri, outside, pd.service)
						continue
					}
					al, ext := allowed(pd.service)
					for _, pk := range ports {
						switch {
						case al[pk]:
						case ext[pk] && !strict:
							extOnly++
						case ext[pk]:
							add("netpol-ingress-port-is-external-port", "policy %s/%s ingress rule %d admits %v to pods of service %s on pod port %v, which is the external port of a global expose but not its container port (globally exposed container ports: %v)",
								self, p.Name, ri, outside, pd.service, pk, sortedPorts(al))
						default:
							add("netpol-ingress-port-not-global", "policy %s/%s ingress rule %d admits %v to pods of service %s on port %v which the manifest does not expose globally (global ports: container %v external %v)",
								self, p.Name, ri, outside, pd.service, pk, sortedPorts(al), sortedPorts(ext))
						}
					}
				}
			}
			if hasType(p, netv1.PolicyTypeEgress) {
				egIso = true
				for ri, rule := range p.Spec.Egress {
					ports, bounded := rulePorts(rule.Ports)
					dnsOnly := bounded
					for _, pk := range ports {
						if pk.port != 53 {
							dnsOnly = false
						}
					}
					if dnsOnly {
						continue // "DNS excepted"
					}
					if len(rule.To) == 0 {
						add("netpol-egress-private", "policy %s/%s egress rule %d admits every destination (incl. private ranges) for pods of service %s", self, p.Name, ri, pd.service)
						continue
					}
					for _, peer := range rule.To {
						if peer.IPBlock != nil {
							bad, which, err := admitsPrivate(peer.IPBlock.CIDR, peer.IPBlock.Except)
							if err != nil {
								add("netpol-unparsable", "policy %s/%s: %v", self, p.Name, err)
							} else if bad {
								add("netpol-egress-private", "policy %s/%s egress rule %d admits %s except %v, which reaches private range %s (ports %v)",
									self, p.Name, ri, peer.IPBlock.CIDR, peer.IPBlock.Except, which, ports)
							}
							continue
						}
						nss, err := peerNamespaces(peer, self, all)
						if err != nil {
							add("netpol-unparsable", "policy %s/%s: %v", self, p.Name, err)
							continue
						}
						if len(nss) > 0 {
							add("netpol-egress-other-namespace", "policy %s/%s egress rule %d admits traffic to pods of other namespaces %v", self, p.Name, ri, nss)
						}
					}
				}
			}
		}
		if !inIso && defIn {
			add("netpol-pod-not-isolated", "pods of %s/%s are selected by no ingress policy: all ingress admitted", self, pd.owner)
		}
		if !egIso && defEg {
			add("netpol-pod-not-isolated", "pods of %s/%s are selected by no egress policy: all egress admitted", self, pd.owner)
		}
	}
	return out, extOnly
}

func sortedPorts(m map[portKey]bool) []string {
	s := map[string]bool{}
	for k := range m {
		s[k.String()] = true
	}
	return sortedStrings(s)
}
