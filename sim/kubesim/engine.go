// Package kubesim is engine D of the verification harness: the provider's real Kubernetes client
// (provider/cluster/kube: builders, apply*, cleanup, Deploy, TeardownLease) is driven against one fake
// cluster (client-go fake clientset + akash CRD fake clientset) by a history of deploy / re-deploy /
// teardown operations of several leases of several tenants, with API calls failing at positions chosen
// by the choice stream.  After every operation the C11 oracle inspects every object in the cluster.
package kubesim

import (
	"context"
	"crypto/sha256"
	"encoding/base32"
	"fmt"
	"strings"

	"github.com/ovrclk/akash/manifest"
	"github.com/ovrclk/akash/provider/cluster/kube"
	mtypes "github.com/ovrclk/akash/x/market/types"

	"verifsim/core"
)

type Engine struct{}

func (Engine) Name() string         { return "kubesim" }
func (Engine) Properties() []string { return []string{"C11"} }

const (
	maxAlive = 4
	maxOps   = 25
	maxCalls = 40 // fault positions are drawn from 1..maxCalls
)

type lease struct {
	id    mtypes.LeaseID
	ns    string
	alive bool
	// manifests attempted since, and including, the last completely applied one: whatever is found
	// in the lease namespace must stem from one of them.
	attempts []manifest.Group
	complete bool // the latest Deploy of this lease returned nil
}

type sim struct {
	r        *core.Run
	c        *cluster
	settings kube.Settings
	commit   [3]ratio
	strict   bool // cfg strictports=1: network-policy ports are read as container ports only
	// cfg noreqcheck=1 (self-test only): skip the request-level isolation check so that the
	// dump-diff isolation check can be exercised on its own
	noReqCheck bool
	leases     []*lease
	byNS       map[string]*lease
	byID       map[string]*lease
}

const (
	opDeployNew = iota
	opRedeploy
	opTeardown
	opTeardownUnknown
)

var opNames = []string{"deploy", "redeploy", "teardown", "teardown-unknown"}

type op struct {
	kind      int
	lid       mtypes.LeaseID
	group     manifest.Group
	mutation  string
	faultKind int
	faultAt   int
	retry     bool
}

// leaseNamespace re-derives, from the property's anchor ("namespace = base32(sha224(lease id))"), the
// namespace name of a lease: SHA-224 of the lease path owner/dseq/gseq/oseq/provider, base32 (extended
// hex alphabet, no padding), lower case.  Written independently of the builders.
func leaseNamespace(l mtypes.LeaseID) string {
	path := fmt.Sprintf("%s/%d/%d/%d/%s", l.Owner, l.DSeq, l.GSeq, l.OSeq, l.Provider)
	sum := sha256.Sum224([]byte(path))
	return strings.ToLower(base32.HexEncoding.WithPadding(base32.NoPadding).EncodeToString(sum[:]))
}

func lidKey(l mtypes.LeaseID) string {
	return fmt.Sprintf("%s|%d|%d|%d|%s", l.Owner, l.DSeq, l.GSeq, l.OSeq, l.Provider)
}

func (s *sim) alive() []*lease {
	var out []*lease
	for _, l := range s.leases {
		if l.alive {
			out = append(out, l)
		}
	}
	return out
}

func (s *sim) genFault(o *op) {
	r := s.r
	o.faultKind = r.Weighted([]int{55, 9, 7, 7, 7, 9}, "fault.kind")
	if o.faultKind != fNone {
		o.faultAt = 1 + r.Choose(maxCalls, "fault.at")
		o.retry = r.Bool(65, "fault.retry")
	}
}

// genOp draws the next operation.  It must not change the simulator state (the operation may be
// skipped by the minimiser).  The kind and the lease index are drawn with state-independent ranges so
// that removing an earlier operation does not re-interpret the later draws more than necessary; a kind
// that is not applicable in the current state falls back to the nearest applicable one.
func (s *sim) genOp() *op {
	r := s.r
	al := s.alive()
	o := &op{kind: r.Weighted([]int{5, 6, 2, 1}, "op.kind")}
	idx := r.Choose(maxAlive, "op.lease")
	switch {
	case o.kind == opDeployNew && len(al) >= maxAlive:
		o.kind = opRedeploy
	case o.kind == opRedeploy && len(al) == 0:
		o.kind = opDeployNew
	case o.kind == opTeardown && len(al) == 0:
		o.kind = opTeardownUnknown
	}
	switch o.kind {
	case opDeployNew:
		o.lid = genLeaseID(r)
		o.group = genGroup(r)
		o.mutation = "new"
		if l := s.byID[lidKey(o.lid)]; l != nil && l.alive {
			o.kind = opRedeploy
			o.mutation = "fresh"
		}
	case opRedeploy:
		l := al[idx%len(al)]
		o.lid = l.id
		o.group, o.mutation = mutateGroup(r, l.attempts[len(l.attempts)-1])
	case opTeardown:
		l := al[idx%len(al)]
		o.lid = l.id
	case opTeardownUnknown:
		o.lid = genLeaseID(r)
		if l := s.byID[lidKey(o.lid)]; l != nil && l.alive {
			o.kind = opTeardown
		}
	}
	s.genFault(o)
	return o
}

// register makes the lease known to the oracle; it checks the "distinct leases -> distinct valid
// namespace names" clause on the harness-side derivation (the cluster scan ties the provider's own
// derivation to this one: every namespace the provider creates must be the harness-derived name of
// a generated lease).
func (s *sim) register(lid mtypes.LeaseID) (*lease, *core.Violation) {
	if l := s.byID[lidKey(lid)]; l != nil {
		return l, nil
	}
	l := &lease{id: lid, ns: leaseNamespace(lid)}
	if !validDNSLabel(l.ns) {
		if v := s.r.Flag("C11/namespace-name-invalid", "lease %s maps to %q which is not a DNS-1123 label", shortLid(lid), l.ns); v != nil {
			return l, v
		}
	}
	if other := s.byNS[l.ns]; other != nil {
		if v := s.r.Flag("C11/namespace-not-injective", "leases %s and %s map to the same namespace %s", shortLid(other.id), shortLid(lid), l.ns); v != nil {
			return l, v
		}
	}
	s.leases = append(s.leases, l)
	s.byNS[l.ns] = l
	s.byID[lidKey(lid)] = l
	return l, nil
}

func errClass(err error) string {
	switch {
	case err == nil:
		return "ok"
	case strings.Contains(err.Error(), "injected"):
		return "injected-error"
	default:
		return "error"
	}
}

func (s *sim) exec(o *op) *core.Violation {
	r := s.r
	r.Step++
	r.Ops++
	r.SimTime++
	l, v := s.register(o.lid)
	if v != nil {
		return v
	}
	r.Count("op:" + opNames[o.kind])
	ctx := context.Background()
	before := s.c.dump()
	fdesc := ""
	if o.faultKind != fNone {
		fdesc = fmt.Sprintf(" plan-fault=%s@call%d retry=%v", faultNames[o.faultKind], o.faultAt, o.retry)
	}

	switch o.kind {
	case opDeployNew, opRedeploy:
		changed := len(l.attempts) > 0 && groupKey(l.attempts[len(l.attempts)-1]) != groupKey(o.group)
		if o.kind == opRedeploy && changed {
			r.Count("probe:redeploy-changed-manifest")
		}
		for _, svc := range o.group.Services {
			for _, e := range svc.Expose {
				if e.Global {
					r.Count("probe:global-expose")
				}
			}
		}
		if s.settings.NetworkPoliciesEnabled {
			r.Count("probe:netpol-on")
		}
		s.probeRounding(o.group)
		r.Logf("#%d %s lease=%s ns=%s (%s) manifest: %s%s", r.Step, opNames[o.kind], shortLid(l.id), l.ns[:8], o.mutation, describeGroup(o.group), fdesc)
		l.alive = true
		attempt := 0
		for {
			g := cloneGroup(o.group)
			if attempt == 0 {
				s.c.begin(o.faultKind, o.faultAt)
			} else {
				s.c.begin(fNone, 0)
			}
			err := s.c.cl.Deploy(ctx, l.id, &g)
			s.c.end()
			fired := s.c.fired
			after := s.c.dump()
			diff := diffKeys(before, after)
			if len(diff) > 0 {
				r.Mutating++
			}
			if fired {
				r.Count("fault:api-error-" + faultNames[o.faultKind])
				r.Logf("   fault fired at call %d: %s", o.faultAt, s.c.actions[o.faultAt-1])
			}
			r.Logf("   -> %s calls=%d changed=%d%s", errClass(err), s.c.callNo, len(diff), errText(err))
			if err != nil && !fired {
				r.Count("deploy-error-without-fault")
			}
			// model update
			if len(l.attempts) == 0 || groupKey(l.attempts[len(l.attempts)-1]) != groupKey(o.group) {
				l.attempts = append(l.attempts, cloneGroup(o.group))
			}
			l.complete = err == nil
			if err == nil {
				l.attempts = []manifest.Group{cloneGroup(o.group)}
				s.probeStale(l, before, after)
			}
			r.Abstract(fmt.Sprintf("%s|%s|%s|%s", opNames[o.kind], o.mutation, errClass(err), s.abstract(l, after)))
			if v := s.check(l, before, after, diff); v != nil {
				return v
			}
			if err == nil || !fired || !o.retry || attempt > 0 {
				break
			}
			attempt++
			r.Count("probe:deploy-cut-and-retried")
			r.Logf("   retry of the cut Deploy")
			before = after
		}

	case opTeardown, opTeardownUnknown:
		r.Logf("#%d %s lease=%s ns=%s%s", r.Step, opNames[o.kind], shortLid(l.id), l.ns[:8], fdesc)
		s.c.begin(o.faultKind, o.faultAt)
		err := s.c.cl.TeardownLease(ctx, l.id)
		s.c.end()
		if s.c.fired {
			r.Count("fault:api-error-" + faultNames[o.faultKind])
			r.Logf("   fault fired at call %d: %s", o.faultAt, s.c.actions[o.faultAt-1])
		}
		mid := s.c.dump()
		gone := !mid.has("Namespace", "", l.ns)
		purged := 0
		if gone && before.has("Namespace", "", l.ns) {
			purged = s.c.namespaceController(l.ns)
		}
		after := mid
		if purged > 0 {
			after = s.c.dump()
		}
		diff := diffKeys(before, after)
		if len(diff) > 0 {
			r.Mutating++
		}
		r.Logf("   -> %s calls=%d namespace-gone=%v collected=%d%s", errClass(err), s.c.callNo, gone, purged, errText(err))
		if err == nil && !gone {
			if v := r.Flag("C11/teardown-namespace-remains", "TeardownLease(%s) returned nil but namespace %s still exists", shortLid(l.id), l.ns); v != nil {
				return v
			}
		}
		if gone {
			if l.alive && before.has("Namespace", "", l.ns) {
				r.Count("probe:teardown")
			}
			l.alive, l.attempts, l.complete = false, nil, false
		}
		r.Abstract(fmt.Sprintf("%s|%s|gone=%v|%s", opNames[o.kind], errClass(err), gone, s.abstract(l, after)))
		if v := s.check(l, before, after, diff); v != nil {
			return v
		}
	}
	return nil
}

func errText(err error) string {
	if err == nil {
		return ""
	}
	t := err.Error()
	if len(t) > 90 {
		t = t[:90]
	}
	return " (" + t + ")"
}

// abstract state: per alive lease the object counts of its namespace, the touched lease first.
func (s *sim) abstract(l *lease, d *dump) string {
	count := func(ns string) string {
		var n [4]int
		for _, o := range d.objs {
			if o.ns != ns {
				continue
			}
			switch o.kind {
			case "Deployment":
				n[0]++
			case "Service":
				n[1]++
			case "Ingress":
				n[2]++
			case "NetworkPolicy":
				n[3]++
			}
		}
		return fmt.Sprintf("%d.%d.%d.%d", n[0], n[1], n[2], n[3])
	}
	var sb strings.Builder
	sb.WriteString(count(l.ns))
	for _, x := range s.leases {
		if x.alive && x != l {
			sb.WriteString("," + count(x.ns))
		}
	}
	return sb.String()
}

// probeRounding counts the deploys in which a commit level > 1 does not divide a leased quantity
// (rounding matters) or scales it below one (the request must be clamped to 1).
func (s *sim) probeRounding(g manifest.Group) {
	rounding, clamped := false, false
	for _, svc := range g.Services {
		vals := [3]uint64{svc.Resources.CPU.Units.Value(), svc.Resources.Memory.Quantity.Value(), svc.Resources.Storage.Quantity.Value()}
		for i, v := range vals {
			q := s.commit[i]
			if q.num <= q.den {
				continue
			}
			if (v*q.den)%q.num != 0 {
				rounding = true
			}
			if v*q.den < q.num {
				clamped = true
			}
		}
	}
	if rounding {
		s.r.Count("probe:commit-level-rounding")
	}
	if clamped {
		s.r.Count("probe:commit-level-clamped-to-one")
	}
}

// probeStale counts the reach probe "a resource of a service that left the manifest was removed".
func (s *sim) probeStale(l *lease, before, after *dump) {
	names := serviceNames(l.attempts)
	for _, o := range before.objs {
		if o.ns != l.ns {
			continue
		}
		switch o.kind {
		case "Deployment", "Service", "Ingress":
		default:
			continue
		}
		svc := labelsOf(o.obj)["akash.network/manifest-service"]
		if svc != "" && !names[svc] && !after.has(o.kind, o.ns, o.name) {
			s.r.Count("probe:stale-resource-removed")
		}
	}
}

func (Engine) Execute(r *core.Run) *core.Violation {
	settings, q := genSettings(r)
	c, err := newCluster(settings)
	if err != nil {
		panic(fmt.Sprintf("kubesim: generated settings rejected by the provider: %v", err))
	}
	s := &sim{r: r, c: c, settings: settings, commit: q, byNS: map[string]*lease{}, byID: map[string]*lease{},
		strict: r.Cfgs("strictports", "") == "1", noReqCheck: r.Cfgs("noreqcheck", "") == "1"}
	r.Logf("settings: commit cpu=%v mem=%v storage=%v netpol=%v statichosts=%v domain=%q lbhosts=%v runtimeclass=%q svctype=%s",
		q[0], q[1], q[2], settings.NetworkPoliciesEnabled, settings.DeploymentIngressStaticHosts, settings.DeploymentIngressDomain,
		settings.DeploymentIngressExposeLBHosts, settings.DeploymentRuntimeClass, settings.DeploymentServiceType)
	// the provider namespace created by the client constructor is part of the initial state
	if v := s.scan(c.dump()); v != nil {
		return v
	}
	n := 4 + r.Choose(maxOps-3, "knob.ops")
	for i := 0; i < n; i++ {
		r.Mark()
		skip := r.Switch("skip.op")
		o := s.genOp()
		if skip {
			continue
		}
		if v := s.exec(o); v != nil {
			return v
		}
	}
	return nil
}

func (Engine) Describe(property string) core.Description {
	return core.Description{
		Rule: "Each run draws provider settings (cpu/memory/storage commit level from {unset,1,3/2,2,3,10,1/2,100}, network-policy flag, ingress static hosts + domain, " +
			"expose-LB-hosts, runtime class, service type, public hostname), builds one fake cluster (system, ingress-controller and a bystander namespace with akash-labelled " +
			"objects) and plays 4-25 operations of up to 4 concurrently alive leases against it: Deploy of a new lease (owner from 3, provider from 2 bech32 addresses, " +
			"dseq/gseq/oseq from colliding sets {1,12,121,256,257,65536,2^32}x{1,2,12,21}x{1,11,2,21}), re-Deploy with the same / a fresh / a mutated manifest " +
			"(drop, add, replace service; change exposes, resources, count), TeardownLease of an alive or a never deployed lease.  Manifest groups: 1-3 services named from " +
			"{web,db,api,web-np,cache}, image/env/args, count 1-3, cpu from {100,1,5,10,15,250,1000,1001}m, memory and storage from 6 values incl. 1, 3, 7 bytes and primes, " +
			"0-3 exposes (port, external port incl. 0, TCP|UDP, global, 0-2 hosts, optional target service).  With probability 41% an operation carries a planned API fault: " +
			"the k-th (k in 1..40) API call of the operation, on either clientset, fails with a generic error / conflict / already-exists / not-found, or is applied but " +
			"answered with a timeout (lost response); a cut Deploy is retried with probability 65%.  After every Deploy, retry and teardown the oracle re-reads every namespace, " +
			"deployment, service, ingress, network policy and Manifest resource of the cluster.",
		Real: []string{"provider/cluster/kube client.Deploy, client.TeardownLease", "kube builders (namespace, deployment, service, ingress, network policy, manifest CR)",
			"kube apply* functions", "kube cleanupStaleResources", "kube validateSettings, prepareEnvironment", "provider/cluster/util (ShouldBeIngress, ExposeExternalPort, ComputeCommittedResources)",
			"pkg/apis/akash.network/v1 Manifest conversion", "client-go fake clientset typed clients + object tracker (create/get/update/delete/list, label filtering)"},
		Stub: []string{"Kubernetes API server: client-go/akash fake clientsets; no admission, validation or defaulting",
			"delete-collection: served by the harness reactor with API-server semantics (namespace + label selector); client-go v0.19 fake has none",
			"list order: harness sorts tracker lists by namespace/name (the tracker iterates a Go map)",
			"namespace lifecycle controller: the harness garbage-collects the objects of a deleted namespace",
			"kube config loading / rest client: bypassed by the overlay constructor VerifNewClient"},
		Assumptions: []string{
			"the lease's resource unit is taken from the manifest service passed to Deploy (the provider validates manifests against the on-chain lease before deploying)",
			"requests are required to be <= limits, >= 1 and, for a commit level c > 1, within [floor(leased/c), ceil(leased/c)] (either rounding direction accepted); for c <= 1 or unset only requests <= limits is required",
			"a nil Privileged flag counts as unprivileged (API default false); AllowPrivilegeEscalation and AutomountServiceAccountToken must be explicitly false (API default true)",
			"'ports the tenant exposed globally' is read as the global exposes of the manifests applied since the last complete Deploy; a network-policy port may name either the container port or the external ('as') port of such an expose - the latter is counted as probe:netpol-port-is-external-not-container (cfg strictports=1 reports it as C11/netpol-ingress-port-is-external-port: NetworkPolicy ports are matched against the pod port)",
			"ingress from the whole ingress-controller namespace (label app.kubernetes.io/name=ingress-nginx) counts as 'from the ingress controller'",
			"DNS exception: an egress rule whose ports are all 53 is accepted whatever its destination",
			"while a Deploy is cut by an API fault and not yet completed, objects may stem from any manifest attempted since the last complete Deploy",
			"sampling: held on everything explored, not a proof",
		},
		RequiredProbes: []string{"probe:redeploy-changed-manifest", "probe:stale-resource-removed", "probe:deploy-cut-and-retried", "probe:netpol-on",
			"probe:global-expose", "probe:commit-level-rounding", "probe:teardown", "fault:api-error-generic", "fault:api-error-conflict",
			"fault:api-error-already-exists", "fault:api-error-not-found", "fault:api-error-lost-response"},
		QuickRuns: 3000, ThoroughRuns: 200000, QuickBudgetS: 90, ThoroughBudget: 900,
		SimTimeUnit: "operations",
	}
}
