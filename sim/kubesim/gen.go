package kubesim

import (
	"fmt"
	"sort"
	"strings"

	"github.com/cosmos/cosmos-sdk/types/bech32"
	corev1 "k8s.io/api/core/v1"

	"github.com/ovrclk/akash/manifest"
	"github.com/ovrclk/akash/provider/cluster/kube"
	atypes "github.com/ovrclk/akash/types"
	mtypes "github.com/ovrclk/akash/x/market/types"

	"verifsim/core"
)

// ratio is the harness-side exact representation of a commit level (the code under test uses float64).
type ratio struct{ num, den uint64 }

func (q ratio) float() float64 { return float64(q.num) / float64(q.den) }
func (q ratio) String() string {
	if q.den == 1 {
		return fmt.Sprint(q.num)
	}
	return fmt.Sprintf("%d/%d", q.num, q.den)
}

// index 0 = "unset" (0), the simplest alternative: requests == limits.
var commitLevels = []ratio{{0, 1}, {1, 1}, {3, 2}, {2, 1}, {3, 1}, {10, 1}, {1, 2}, {100, 1}}

// addresses: valid bech32 account addresses with the akash prefix, derived from fixed 20 byte patterns.
func mkAddr(b byte) string {
	raw := make([]byte, 20)
	for i := range raw {
		raw[i] = b + byte(i)*7
	}
	s, err := bech32.ConvertAndEncode("akash", raw)
	if err != nil {
		panic(err)
	}
	return s
}

var (
	owners    = []string{mkAddr(1), mkAddr(2), mkAddr(3)}
	providers = []string{mkAddr(101), mkAddr(102)}
	// colliding sets: textual concatenations of (dseq,gseq,oseq) coincide for several triples
	// (1|21|1 vs 12|1|1 vs 1|2|11 ...), values around byte / word boundaries.
	dseqs = []uint64{1, 12, 121, 256, 257, 65536, 1 << 32}
	gseqs = []uint32{1, 2, 12, 21}
	oseqs = []uint32{1, 11, 2, 21}

	svcNames = []string{"web", "db", "api", "web-np", "cache"}
	images   = []string{"nginx", "redis:6", "quay.io/ovrclk/demo-app"}
	envs     = []string{"A=1", "B", "AKASH_OWNER=spoofed", "PATH=/bin", "C=x=y"}
	argsPool = []string{"--port", "8080", "-v"}
	hostPool = []string{"a.example.com", "b.test", "c.example.org"}

	cpuSet  = []uint64{100, 1, 5, 10, 15, 250, 1000, 1001}              // milli cpu
	memSet  = []uint64{128 << 20, 1, 7, 512 << 20, 1 << 30, 1000000007} // bytes
	stoSet  = []uint64{512 << 20, 1, 3, 1 << 30, 10 << 30, 999999999}   // bytes
	portSet = []uint16{80, 8080, 81, 443, 53, 3306}
	extSet  = []uint16{0, 80, 81, 8080, 30000}
)

func genSettings(r *core.Run) (kube.Settings, [3]ratio) {
	s := kube.NewDefaultSettings()
	var q [3]ratio
	q[0] = commitLevels[r.Choose(len(commitLevels), "set.commit.cpu")]
	q[1] = commitLevels[r.Choose(len(commitLevels), "set.commit.mem")]
	q[2] = commitLevels[r.Choose(len(commitLevels), "set.commit.storage")]
	s.CPUCommitLevel, s.MemoryCommitLevel, s.StorageCommitLevel = q[0].float(), q[1].float(), q[2].float()
	s.NetworkPoliciesEnabled = r.Bool(65, "set.netpol")
	if r.Bool(50, "set.statichosts") {
		s.DeploymentIngressStaticHosts = true
		s.DeploymentIngressDomain = []string{"ingress.example.com", "apps.test"}[r.Choose(2, "set.domain")]
	}
	s.DeploymentIngressExposeLBHosts = r.Bool(30, "set.lbhosts")
	s.DeploymentRuntimeClass = []string{"", "none", "gvisor"}[r.Choose(3, "set.runtimeclass")]
	if r.Bool(30, "set.nodeport") {
		s.DeploymentServiceType = corev1.ServiceTypeNodePort
	}
	s.ClusterPublicHostname = []string{"", "provider.example.com"}[r.Choose(2, "set.publichost")]
	return s, q
}

func genLeaseID(r *core.Run) mtypes.LeaseID {
	return mtypes.LeaseID{
		Owner:    owners[r.Choose(len(owners), "lid.owner")],
		DSeq:     dseqs[r.Choose(len(dseqs), "lid.dseq")],
		GSeq:     gseqs[r.Choose(len(gseqs), "lid.gseq")],
		OSeq:     oseqs[r.Choose(len(oseqs), "lid.oseq")],
		Provider: providers[r.Choose(len(providers), "lid.provider")],
	}
}

func genResources(r *core.Run) atypes.ResourceUnits {
	return atypes.ResourceUnits{
		CPU:     &atypes.CPU{Units: atypes.NewResourceValue(cpuSet[r.Choose(len(cpuSet), "res.cpu")])},
		Memory:  &atypes.Memory{Quantity: atypes.NewResourceValue(memSet[r.Choose(len(memSet), "res.mem")])},
		Storage: &atypes.Storage{Quantity: atypes.NewResourceValue(stoSet[r.Choose(len(stoSet), "res.storage")])},
	}
}

func genExposes(r *core.Run, others []string) []manifest.ServiceExpose {
	n := r.Weighted([]int{3, 4, 3, 2}, "exp.n")
	out := make([]manifest.ServiceExpose, 0, n)
	for i := 0; i < n; i++ {
		e := manifest.ServiceExpose{
			Port:         portSet[r.Choose(len(portSet), "exp.port")],
			ExternalPort: extSet[r.Choose(len(extSet), "exp.ext")],
			Proto:        []manifest.ServiceProtocol{manifest.TCP, manifest.UDP}[r.Weighted([]int{3, 1}, "exp.proto")],
			Global:       r.Bool(55, "exp.global"),
		}
		nh := r.Weighted([]int{3, 2, 1}, "exp.nhosts")
		for h := 0; h < nh; h++ {
			e.Hosts = append(e.Hosts, hostPool[r.Choose(len(hostPool), "exp.host")])
		}
		if len(others) > 0 && r.Bool(35, "exp.to") {
			e.Service = others[r.Choose(len(others), "exp.to.svc")]
		}
		out = append(out, e)
	}
	return out
}

func genService(r *core.Run, name string, others []string) manifest.Service {
	s := manifest.Service{
		Name:      name,
		Image:     images[r.Choose(len(images), "svc.image")],
		Resources: genResources(r),
		Count:     uint32(1 + r.Choose(3, "svc.count")),
	}
	ne := r.Weighted([]int{3, 2, 1}, "svc.nenv")
	for i := 0; i < ne; i++ {
		s.Env = append(s.Env, envs[r.Choose(len(envs), "svc.env")])
	}
	na := r.Weighted([]int{3, 1, 1}, "svc.nargs")
	for i := 0; i < na; i++ {
		s.Args = append(s.Args, argsPool[r.Choose(len(argsPool), "svc.arg")])
	}
	s.Expose = genExposes(r, others)
	return s
}

func pickNames(r *core.Run, n int) []string {
	p := r.Permute(len(svcNames), "grp.names")
	out := make([]string, 0, n)
	for i := 0; i < n; i++ {
		out = append(out, svcNames[p[i]])
	}
	return out
}

func genGroup(r *core.Run) manifest.Group {
	n := 1 + r.Weighted([]int{4, 3, 2}, "grp.nsvc")
	names := pickNames(r, n)
	g := manifest.Group{Name: "g"}
	for i, nm := range names {
		others := append(append([]string{}, names[:i]...), names[i+1:]...)
		g.Services = append(g.Services, genService(r, nm, others))
	}
	return g
}

func cloneGroup(g manifest.Group) manifest.Group {
	out := manifest.Group{Name: g.Name}
	for _, s := range g.Services {
		c := s
		c.Args = append([]string(nil), s.Args...)
		c.Env = append([]string(nil), s.Env...)
		c.Command = append([]string(nil), s.Command...)
		c.Expose = nil
		for _, e := range s.Expose {
			ce := e
			ce.Hosts = append([]string(nil), e.Hosts...)
			c.Expose = append(c.Expose, ce)
		}
		out.Services = append(out.Services, c)
	}
	return out
}

// mutateGroup derives the manifest of a re-deploy from the previous one.  Kind 0 = identical manifest.
func mutateGroup(r *core.Run, old manifest.Group) (manifest.Group, string) {
	kind := r.Weighted([]int{2, 3, 3, 3, 4, 3, 2}, "mut.kind")
	g := cloneGroup(old)
	names := func() []string {
		var n []string
		for _, s := range g.Services {
			n = append(n, s.Name)
		}
		return n
	}
	othersOf := func(i int) []string {
		n := names()
		return append(append([]string{}, n[:i]...), n[i+1:]...)
	}
	switch kind {
	case 0:
		return g, "same"
	case 1:
		return genGroup(r), "fresh"
	case 2: // drop a service
		i := r.Choose(len(g.Services), "mut.svc")
		if len(g.Services) > 1 {
			g.Services = append(g.Services[:i], g.Services[i+1:]...)
			return g, "drop-service"
		}
		g.Services[i].Expose = nil
		return g, "drop-exposes"
	case 3: // add a service under a name not in use
		used := map[string]bool{}
		for _, n := range names() {
			used[n] = true
		}
		var free []string
		for _, n := range svcNames {
			if !used[n] {
				free = append(free, n)
			}
		}
		nm := free[r.Choose(len(free), "mut.newname")]
		if len(g.Services) >= 3 {
			// replace instead of add (bound: <= 3 services)
			i := r.Choose(len(g.Services), "mut.svc")
			g.Services[i] = genService(r, nm, othersOf(i))
			return g, "replace-service"
		}
		g.Services = append(g.Services, genService(r, nm, names()))
		return g, "add-service"
	case 4: // re-draw exposes of one service
		i := r.Choose(len(g.Services), "mut.svc")
		g.Services[i].Expose = genExposes(r, othersOf(i))
		return g, "change-exposes"
	case 5:
		i := r.Choose(len(g.Services), "mut.svc")
		g.Services[i].Resources = genResources(r)
		return g, "change-resources"
	default:
		i := r.Choose(len(g.Services), "mut.svc")
		g.Services[i].Count = uint32(1 + r.Choose(3, "svc.count"))
		return g, "change-count"
	}
}

func externalPort(e manifest.ServiceExpose) uint16 {
	if e.ExternalPort == 0 {
		return e.Port
	}
	return e.ExternalPort
}

func describeGroup(g manifest.Group) string {
	var sb strings.Builder
	for i, s := range g.Services {
		if i > 0 {
			sb.WriteString("; ")
		}
		fmt.Fprintf(&sb, "%s x%d cpu=%dm mem=%d sto=%d", s.Name, s.Count, s.Resources.CPU.Units.Value(),
			s.Resources.Memory.Quantity.Value(), s.Resources.Storage.Quantity.Value())
		for _, e := range s.Expose {
			fmt.Fprintf(&sb, " [%d", e.Port)
			if e.ExternalPort != 0 {
				fmt.Fprintf(&sb, " as %d", e.ExternalPort)
			}
			fmt.Fprintf(&sb, "/%s", e.Proto)
			if e.Global {
				sb.WriteString(" global")
			}
			if e.Service != "" {
				fmt.Fprintf(&sb, " to=%s", e.Service)
			}
			if len(e.Hosts) > 0 {
				fmt.Fprintf(&sb, " hosts=%s", strings.Join(e.Hosts, ","))
			}
			sb.WriteString("]")
		}
	}
	return sb.String()
}

func groupKey(g manifest.Group) string { return fmt.Sprintf("%#v", describeGroup(g)) + envArgsKey(g) }

func envArgsKey(g manifest.Group) string {
	var sb strings.Builder
	for _, s := range g.Services {
		fmt.Fprintf(&sb, "|%s|%s|%s", s.Image, strings.Join(s.Env, ","), strings.Join(s.Args, ","))
	}
	return sb.String()
}

func serviceNames(gs []manifest.Group) map[string]bool {
	m := map[string]bool{}
	for _, g := range gs {
		for _, s := range g.Services {
			m[s.Name] = true
		}
	}
	return m
}

func sortedStrings(m map[string]bool) []string {
	out := make([]string, 0, len(m))
	for k := range m {
		out = append(out, k)
	}
	sort.Strings(out)
	return out
}

func shortLid(l mtypes.LeaseID) string {
	o, p := -1, -1
	for i, a := range owners {
		if a == l.Owner {
			o = i
		}
	}
	for i, a := range providers {
		if a == l.Provider {
			p = i
		}
	}
	return fmt.Sprintf("T%d/%d/%d/%d/P%d", o, l.DSeq, l.GSeq, l.OSeq, p)
}
