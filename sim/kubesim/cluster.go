package kubesim

import (
	"context"
	"encoding/json"
	"errors"
	"fmt"
	"hash/fnv"
	"sort"

	"github.com/tendermint/tendermint/libs/log"
	appsv1 "k8s.io/api/apps/v1"
	corev1 "k8s.io/api/core/v1"
	netv1 "k8s.io/api/networking/v1"
	kerrors "k8s.io/apimachinery/pkg/api/errors"
	"k8s.io/apimachinery/pkg/api/meta"
	metav1 "k8s.io/apimachinery/pkg/apis/meta/v1"
	"k8s.io/apimachinery/pkg/labels"
	"k8s.io/apimachinery/pkg/runtime"
	"k8s.io/apimachinery/pkg/runtime/schema"
	kfake "k8s.io/client-go/kubernetes/fake"
	ktesting "k8s.io/client-go/testing"

	akashv1 "github.com/ovrclk/akash/pkg/apis/akash.network/v1"
	afake "github.com/ovrclk/akash/pkg/client/clientset/versioned/fake"
	"github.com/ovrclk/akash/provider/cluster/kube"
)

const providerNS = "lease" // the provider's own namespace (holds the Manifest custom resources)

// fault kinds; 0 = none
const (
	fNone = iota
	fGeneric
	fConflict
	fAlreadyExists
	fNotFound
	fLostResponse // the call is applied by the API server but the client gets an error
)

var faultNames = []string{"none", "generic", "conflict", "already-exists", "not-found", "lost-response"}

type actionRec struct {
	client   string // kube | akash
	verb     string
	resource string
	ns       string
	name     string
	faulted  bool
}

func (a actionRec) String() string {
	f := ""
	if a.faulted {
		f = " FAULT"
	}
	return fmt.Sprintf("%s %s %s/%s%s", a.verb, a.resource, a.ns, a.name, f)
}

func (a actionRec) mutating() bool {
	switch a.verb {
	case "get", "list", "watch":
		return false
	}
	return true
}

// cluster is ONE fake Kubernetes cluster: the two fake clientsets, the reactor that numbers the API
// calls of the running operation, injects the planned fault and supplies what the v0.19 fake tracker
// lacks (deterministic list order, delete-collection).
type cluster struct {
	kc *kfake.Clientset
	ac *afake.Clientset
	cl kube.Client

	inOp      bool
	callNo    int
	faultAt   int
	faultKind int
	fired     bool
	actions   []actionRec

	seeded map[string]bool // keys of objects that exist independently of any lease
}

var errInjected = errors.New("verif: injected API failure")

func newCluster(settings kube.Settings) (*cluster, error) {
	c := &cluster{kc: kfake.NewSimpleClientset(), ac: afake.NewSimpleClientset(), seeded: map[string]bool{}}
	c.kc.PrependReactor("*", "*", c.reactor("kube", c.kc.Tracker()))
	c.ac.PrependReactor("*", "*", c.reactor("akash", c.ac.Tracker()))
	c.seed()
	cl, err := kube.VerifNewClient(context.Background(), log.NewNopLogger(), c.kc, c.ac, providerNS, settings)
	if err != nil {
		return nil, err
	}
	c.cl = cl
	for _, o := range c.dump().objs {
		c.seeded[o.key()] = true
	}
	return c, nil
}

// seed puts objects into the cluster that belong to nobody's lease: system namespaces, the ingress
// controller's namespace and a bystander tenant-like namespace whose objects carry akash labels (a
// clean-up that is not confined to the lease namespace would hit them).
func (c *cluster) seed() {
	ctx := context.Background()
	must := func(err error) {
		if err != nil {
			panic(fmt.Sprintf("kubesim: seeding fake cluster: %v", err))
		}
	}
	for _, ns := range []struct {
		name   string
		labels map[string]string
	}{
		{"default", map[string]string{"kubernetes.io/metadata.name": "default"}},
		{"kube-system", map[string]string{"kubernetes.io/metadata.name": "kube-system"}},
		{ingressNS, map[string]string{ingressLabel: ingressValue}},
		{"bystander", map[string]string{"akash.network": "true"}},
	} {
		_, err := c.kc.CoreV1().Namespaces().Create(ctx, &corev1.Namespace{ObjectMeta: metav1.ObjectMeta{Name: ns.name, Labels: ns.labels}}, metav1.CreateOptions{})
		must(err)
	}
	lbl := map[string]string{"akash.network": "true", "akash.network/manifest-service": "bystander-svc"}
	one := int32(1)
	_, err := c.kc.AppsV1().Deployments("bystander").Create(ctx, &appsv1.Deployment{
		ObjectMeta: metav1.ObjectMeta{Name: "web", Labels: lbl},
		Spec: appsv1.DeploymentSpec{Replicas: &one, Selector: &metav1.LabelSelector{MatchLabels: lbl},
			Template: corev1.PodTemplateSpec{ObjectMeta: metav1.ObjectMeta{Labels: lbl},
				Spec: corev1.PodSpec{Containers: []corev1.Container{{Name: "web", Image: "bystander"}}}}},
	}, metav1.CreateOptions{})
	must(err)
	_, err = c.kc.CoreV1().Services("bystander").Create(ctx, &corev1.Service{
		ObjectMeta: metav1.ObjectMeta{Name: "web", Labels: lbl},
		Spec:       corev1.ServiceSpec{Selector: lbl, Ports: []corev1.ServicePort{{Name: "p", Port: 80}}},
	}, metav1.CreateOptions{})
	must(err)
	_, err = c.kc.NetworkingV1().Ingresses("bystander").Create(ctx, &netv1.Ingress{
		ObjectMeta: metav1.ObjectMeta{Name: "web", Labels: lbl},
	}, metav1.CreateOptions{})
	must(err)
	_, err = c.kc.NetworkingV1().NetworkPolicies("bystander").Create(ctx, &netv1.NetworkPolicy{
		ObjectMeta: metav1.ObjectMeta{Name: "akash-deployment-restrictions", Labels: lbl},
		Spec:       netv1.NetworkPolicySpec{PolicyTypes: []netv1.PolicyType{netv1.PolicyTypeIngress}},
	}, metav1.CreateOptions{})
	must(err)
}

func gr(a ktesting.Action) schema.GroupResource { return a.GetResource().GroupResource() }

func actionName(a ktesting.Action) string {
	switch x := a.(type) {
	case ktesting.GetActionImpl:
		return x.GetName()
	case ktesting.DeleteActionImpl:
		return x.GetName()
	case ktesting.PatchActionImpl:
		return x.GetName()
	case ktesting.CreateActionImpl:
		if m, err := meta.Accessor(x.GetObject()); err == nil {
			return m.GetName()
		}
	case ktesting.UpdateActionImpl:
		if m, err := meta.Accessor(x.GetObject()); err == nil {
			return m.GetName()
		}
	}
	return ""
}

func (c *cluster) reactor(which string, tracker ktesting.ObjectTracker) ktesting.ReactionFunc {
	base := ktesting.ObjectReaction(tracker)
	return func(a ktesting.Action) (bool, runtime.Object, error) {
		if !c.inOp {
			// calls of the harness itself: plain tracker semantics, never counted, never failed
			return c.serve(tracker, base, a)
		}
		c.callNo++
		rec := actionRec{client: which, verb: a.GetVerb(), resource: a.GetResource().Resource, ns: a.GetNamespace(), name: actionName(a)}
		if c.faultKind != fNone && c.callNo == c.faultAt && !c.fired {
			c.fired = true
			rec.faulted = true
			c.actions = append(c.actions, rec)
			switch c.faultKind {
			case fConflict:
				return true, nil, kerrors.NewConflict(gr(a), rec.name, errInjected)
			case fAlreadyExists:
				return true, nil, kerrors.NewAlreadyExists(gr(a), rec.name)
			case fNotFound:
				// An API server never answers "not found" to the delete of an object that exists; the
				// realistic way to see it is that an earlier (lost) attempt or somebody else already
				// removed the object: the deletion is applied, the caller is told it was not there.
				if a.GetVerb() == "delete" {
					c.serve(tracker, base, a)
				}
				return true, nil, kerrors.NewNotFound(gr(a), rec.name)
			case fLostResponse:
				c.serve(tracker, base, a)
				return true, nil, kerrors.NewTimeoutError("verif: injected lost response", 1)
			default:
				return true, nil, errInjected
			}
		}
		c.actions = append(c.actions, rec)
		return c.serve(tracker, base, a)
	}
}

var kindOfResource = map[string]string{
	"deployments": "Deployment", "ingresses": "Ingress", "services": "Service", "networkpolicies": "NetworkPolicy",
	"namespaces": "Namespace", "manifests": "Manifest",
}

// serve answers one API call from the tracker.  Lists come back sorted by namespace/name (the
// tracker iterates a Go map) and delete-collection, which client-go v0.19's fake does not implement,
// is served with API-server semantics: every object of the resource in the request namespace
// (all namespaces when empty) whose labels match the selector is deleted.
func (c *cluster) serve(tracker ktesting.ObjectTracker, base ktesting.ReactionFunc, a ktesting.Action) (bool, runtime.Object, error) {
	switch act := a.(type) {
	case ktesting.ListActionImpl:
		h, obj, err := base(a)
		if err == nil && obj != nil {
			sortList(obj)
		}
		return h, obj, err
	case ktesting.DeleteCollectionActionImpl:
		kind, ok := kindOfResource[act.GetResource().Resource]
		if !ok {
			return true, nil, fmt.Errorf("kubesim: delete-collection of %q not supported by the fake cluster", act.GetResource().Resource)
		}
		gvk := act.GetResource().GroupVersion().WithKind(kind)
		list, err := tracker.List(act.GetResource(), gvk, act.GetNamespace())
		if err != nil {
			return true, nil, err
		}
		sortList(list)
		items, err := meta.ExtractList(list)
		if err != nil {
			return true, nil, err
		}
		sel := act.GetListRestrictions().Labels
		if sel == nil {
			sel = labels.Everything()
		}
		for _, it := range items {
			m, err := meta.Accessor(it)
			if err != nil {
				return true, nil, err
			}
			if !sel.Matches(labels.Set(m.GetLabels())) {
				continue
			}
			if err := tracker.Delete(act.GetResource(), m.GetNamespace(), m.GetName()); err != nil {
				return true, nil, err
			}
		}
		return true, nil, nil
	}
	return base(a)
}

func sortList(list runtime.Object) {
	items, err := meta.ExtractList(list)
	if err != nil || len(items) < 2 {
		return
	}
	type kv struct {
		k string
		o runtime.Object
	}
	tmp := make([]kv, len(items))
	for i, it := range items {
		m, _ := meta.Accessor(it)
		tmp[i] = kv{m.GetNamespace() + "/" + m.GetName(), it.DeepCopyObject()}
	}
	sort.SliceStable(tmp, func(i, j int) bool { return tmp[i].k < tmp[j].k })
	out := make([]runtime.Object, len(items))
	for i := range tmp {
		out[i] = tmp[i].o
	}
	_ = meta.SetList(list, out)
}

// begin/end bracket one call of the code under test.
func (c *cluster) begin(kind, at int) {
	c.inOp, c.callNo, c.faultKind, c.faultAt, c.fired, c.actions = true, 0, kind, at, false, c.actions[:0]
}
func (c *cluster) end() { c.inOp = false }

// ---- full dump of the cluster (oracle input) ----

type objRec struct {
	kind string // Namespace | Deployment | Service | Ingress | NetworkPolicy | Manifest
	ns   string
	name string
	h    uint64
	obj  interface{}
}

func (o objRec) key() string { return o.kind + "|" + o.ns + "|" + o.name }

type dump struct {
	objs  []objRec
	byKey map[string]int
}

func digest(v interface{}) uint64 {
	b, err := json.Marshal(v)
	if err != nil {
		panic(err)
	}
	f := fnv.New64a()
	f.Write(b)
	return f.Sum64()
}

func (c *cluster) dump() *dump {
	if c.inOp {
		panic("kubesim: dump inside an operation")
	}
	ctx := context.Background()
	d := &dump{byKey: map[string]int{}}
	add := func(kind, ns, name string, obj interface{}) {
		d.objs = append(d.objs, objRec{kind, ns, name, digest(obj), obj})
	}
	must := func(err error) {
		if err != nil {
			panic(fmt.Sprintf("kubesim: listing fake cluster: %v", err))
		}
	}
	nsl, err := c.kc.CoreV1().Namespaces().List(ctx, metav1.ListOptions{})
	must(err)
	for i := range nsl.Items {
		o := &nsl.Items[i]
		add("Namespace", "", o.Name, o)
	}
	dl, err := c.kc.AppsV1().Deployments(metav1.NamespaceAll).List(ctx, metav1.ListOptions{})
	must(err)
	for i := range dl.Items {
		o := &dl.Items[i]
		add("Deployment", o.Namespace, o.Name, o)
	}
	sl, err := c.kc.CoreV1().Services(metav1.NamespaceAll).List(ctx, metav1.ListOptions{})
	must(err)
	for i := range sl.Items {
		o := &sl.Items[i]
		add("Service", o.Namespace, o.Name, o)
	}
	il, err := c.kc.NetworkingV1().Ingresses(metav1.NamespaceAll).List(ctx, metav1.ListOptions{})
	must(err)
	for i := range il.Items {
		o := &il.Items[i]
		add("Ingress", o.Namespace, o.Name, o)
	}
	pl, err := c.kc.NetworkingV1().NetworkPolicies(metav1.NamespaceAll).List(ctx, metav1.ListOptions{})
	must(err)
	for i := range pl.Items {
		o := &pl.Items[i]
		add("NetworkPolicy", o.Namespace, o.Name, o)
	}
	ml, err := c.ac.AkashV1().Manifests(metav1.NamespaceAll).List(ctx, metav1.ListOptions{})
	must(err)
	for i := range ml.Items {
		o := &ml.Items[i]
		add("Manifest", o.Namespace, o.Name, o)
	}
	sort.SliceStable(d.objs, func(i, j int) bool { return d.objs[i].key() < d.objs[j].key() })
	for i, o := range d.objs {
		d.byKey[o.key()] = i
	}
	return d
}

func (d *dump) has(kind, ns, name string) bool {
	_, ok := d.byKey[kind+"|"+ns+"|"+name]
	return ok
}

// diffKeys returns the sorted keys of objects added, removed or modified between two dumps.
func diffKeys(a, b *dump) []string {
	var out []string
	for _, o := range a.objs {
		j, ok := b.byKey[o.key()]
		if !ok {
			out = append(out, "-"+o.key())
		} else if b.objs[j].h != o.h {
			out = append(out, "~"+o.key())
		}
	}
	for _, o := range b.objs {
		if _, ok := a.byKey[o.key()]; !ok {
			out = append(out, "+"+o.key())
		}
	}
	sort.Strings(out)
	return out
}

// namespaceController is the stub of Kubernetes' namespace lifecycle controller: once a Namespace
// object is gone, every namespaced object inside it is garbage collected.  (The fake tracker has no
// controllers.)  It works on the trackers directly, i.e. outside the numbered API calls.
func (c *cluster) namespaceController(ns string) int {
	n := 0
	d := c.dump()
	for _, o := range d.objs {
		if o.ns != ns || o.kind == "Manifest" {
			continue
		}
		var gvr schema.GroupVersionResource
		switch o.kind {
		case "Deployment":
			gvr = appsv1.SchemeGroupVersion.WithResource("deployments")
		case "Service":
			gvr = corev1.SchemeGroupVersion.WithResource("services")
		case "Ingress":
			gvr = netv1.SchemeGroupVersion.WithResource("ingresses")
		case "NetworkPolicy":
			gvr = netv1.SchemeGroupVersion.WithResource("networkpolicies")
		default:
			continue
		}
		if err := c.kc.Tracker().Delete(gvr, o.ns, o.name); err != nil {
			panic(fmt.Sprintf("kubesim: namespace controller stub: %v", err))
		}
		n++
	}
	return n
}

var _ = akashv1.Manifest{}
