// Package chainsim runs the whole Akash application (baseapp, ante handler, bank, all x/ modules) as a
// deterministic state machine under a simulated block proposer.  See DESIGN.md section 2.
package chainsim

import (
	"encoding/json"
	"fmt"
	"sort"
	"time"

	"github.com/cosmos/cosmos-sdk/client"
	"github.com/cosmos/cosmos-sdk/codec"
	"github.com/cosmos/cosmos-sdk/crypto/keys/secp256k1"
	cryptotypes "github.com/cosmos/cosmos-sdk/crypto/types"
	"github.com/cosmos/cosmos-sdk/simapp"
	sdk "github.com/cosmos/cosmos-sdk/types"
	"github.com/cosmos/cosmos-sdk/types/tx/signing"
	authkeeper "github.com/cosmos/cosmos-sdk/x/auth/keeper"
	authsign "github.com/cosmos/cosmos-sdk/x/auth/signing"
	authtypes "github.com/cosmos/cosmos-sdk/x/auth/types"
	bankkeeper "github.com/cosmos/cosmos-sdk/x/bank/keeper"
	banktypes "github.com/cosmos/cosmos-sdk/x/bank/types"
	abci "github.com/tendermint/tendermint/abci/types"
	"github.com/tendermint/tendermint/libs/log"
	tmproto "github.com/tendermint/tendermint/proto/tendermint/types"
	dbm "github.com/tendermint/tm-db"

	"github.com/ovrclk/akash/app"
	dtypes "github.com/ovrclk/akash/x/deployment/types"
	etypes "github.com/ovrclk/akash/x/escrow/types"
	mtypes "github.com/ovrclk/akash/x/market/types"

	"verifsim/core"
)

const (
	ChainID = "verif-sim-1"
	Denom   = "uakt"
)

type Actor struct {
	Name   string
	Role   string // tenant | provider | auditor | bystander
	Priv   cryptotypes.PrivKey
	Addr   sdk.AccAddress
	Bech   string
	AccNum uint64
	Funds  int64
}

// Replica is one instance of the real application over its own "disk" (tm-db MemDB).
type Replica struct {
	App     *app.AkashApp
	DB      dbm.DB
	InBlock bool
	// Inv: the node-local --inv-check-period this node was started with (0 = never).  An operator's
	// option: nothing the state machine computes may depend on it, so replicas run with different values.
	Inv uint
}

type Knobs struct {
	DeploymentMinDeposit int64
	BidMinDeposit        int64
	OrderMaxBids         uint32
	MaxGap               int
}

type World struct {
	R             *core.Run
	Reps          []*Replica
	Actors        []*Actor
	byAddr        map[string]*Actor
	Height        int64
	Time          time.Time
	Knobs         Knobs
	TxCfg         client.TxConfig
	Cdc           codec.Marshaler
	Genesis       []byte
	EscrowMA      string // bech32 of the escrow module account
	BlockLog      []BlockRec
	blockStart    *Snap
	genesisTime   time.Time
	GenesisHeight int64
	curBlock      *BlockRec
}

type BlockRec struct {
	Height int64
	Time   time.Time
	Txs    [][]byte
	// MinDeposit != 0: a governance parameter change (deployment minimum deposit) takes effect at the start
	// of this block.  The vote itself is not simulated; the state change is the one the parameter-change
	// proposal handler makes (Subspace.Update), so it belongs to the block like its transactions do.
	MinDeposit int64 `json:",omitempty"`
}

var encCfg = app.MakeEncodingConfig()

func newApp(db dbm.DB) *app.AkashApp { return newAppInv(db, 0) }

func newAppInv(db dbm.DB, inv uint) *app.AkashApp {
	return app.NewApp(log.NewNopLogger(), db, nil, true, inv, map[int64]bool{}, app.DefaultHome, simapp.EmptyAppOptions{})
}

func actorKey(i int) cryptotypes.PrivKey {
	return secp256k1.GenPrivKeyFromSecret([]byte(fmt.Sprintf("akash-verif-actor-%d", i)))
}

// NewWorld draws the per-run configuration ("swarm" knobs), builds genesis and initialises nrep replicas.
// Preset fixes the world's shape for scripted (systematic sweep) workloads instead of drawing it.
type Preset struct {
	Knobs                        Knobs
	Tenants, Providers, Auditors int
}

func NewWorld(r *core.Run, nrep int) *World { return NewWorldPreset(r, nrep, nil) }

func NewWorldPreset(r *core.Run, nrep int, pre *Preset) *World {
	w := &World{R: r, byAddr: map[string]*Actor{}, TxCfg: encCfg.TxConfig, Cdc: encCfg.Marshaler}
	w.Time = time.Date(2021, 7, 16, 0, 0, 0, 0, time.UTC)
	w.EscrowMA = authtypes.NewModuleAddress(etypes.ModuleName).String()

	if pre != nil {
		return w.finishWorld(r, nrep, pre)
	}
	// knobs: small minimum deposits in most runs so that exhaustion needs few blocks
	depChoices := []int64{5000000, 50, 500, 20, 5000}
	w.Knobs.DeploymentMinDeposit = depChoices[r.Choose(len(depChoices), "knob.depMinDeposit")]
	bidChoices := []int64{50000000, 10, 100, 1}
	w.Knobs.BidMinDeposit = bidChoices[r.Choose(len(bidChoices), "knob.bidMinDeposit")]
	maxBids := []uint32{20, 1, 2, 3}
	w.Knobs.OrderMaxBids = maxBids[r.Choose(len(maxBids), "knob.orderMaxBids")]
	gaps := []int{3, 1, 8, 30}
	w.Knobs.MaxGap = gaps[r.Choose(len(gaps), "knob.maxGap")]

	nT := 1 + r.Choose(3, "knob.tenants")
	nP := 1 + r.Choose(3, "knob.providers")
	nA := r.Choose(3, "knob.auditors")
	if r.Property == "C08" {
		// admission is decided over what several auditors attested: always at least one, often three
		nA = 1 + r.Choose(3, "knob.auditors.c08")
	}
	idx := 0
	add := func(role string, n int) {
		for i := 0; i < n; i++ {
			priv := actorKey(idx)
			addr := sdk.AccAddress(priv.PubKey().Address())
			a := &Actor{Name: fmt.Sprintf("%s%d", role[:1], i), Role: role, Priv: priv, Addr: addr, Bech: addr.String()}
			// most accounts are rich relative to the deposits; some deliberately poor
			switch r.Weighted([]int{6, 0, 1, 1}, "knob.funds") {
			case 0, 1:
				a.Funds = 40 * maxI64(w.Knobs.DeploymentMinDeposit, w.Knobs.BidMinDeposit)
			case 2:
				a.Funds = 3*maxI64(w.Knobs.DeploymentMinDeposit, w.Knobs.BidMinDeposit) + 7
			case 3:
				a.Funds = maxI64(w.Knobs.DeploymentMinDeposit, w.Knobs.BidMinDeposit) - 1
			}
			w.Actors = append(w.Actors, a)
			w.byAddr[a.Bech] = a
			idx++
		}
	}
	add("tenant", nT)
	add("provider", nP)
	add("auditor", nA)
	add("bystander", 1)

	w.Genesis = w.buildGenesis()
	w.genesisTime = w.Time
	for i := 0; i < nrep; i++ {
		w.Reps = append(w.Reps, w.bootReplicaInv(w.Genesis, uint(len(w.Reps)))) // replica i checks invariants every i blocks (0: never)
	}
	// account numbers are assigned by genesis order
	ctx := w.Reps[0].App.NewContext(true, tmproto.Header{Height: 1})
	ak := w.accountKeeper(w.Reps[0])
	for _, a := range w.Actors {
		acc := ak.GetAccount(ctx, a.Addr)
		if acc == nil {
			panic("actor account missing after genesis")
		}
		a.AccNum = acc.GetAccountNumber()
	}
	w.Height = 1 // InitChain + first commit produce version 1
	r.Logf("world: tenants=%d providers=%d auditors=%d depMin=%d bidMin=%d maxBids=%d maxGap=%d replicas=%d",
		nT, nP, nA, w.Knobs.DeploymentMinDeposit, w.Knobs.BidMinDeposit, w.Knobs.OrderMaxBids, w.Knobs.MaxGap, nrep)
	return w
}

// finishWorld builds a preset world: all accounts rich, nothing drawn.
func (w *World) finishWorld(r *core.Run, nrep int, pre *Preset) *World {
	w.Knobs = pre.Knobs
	idx := 0
	add := func(role string, n int) {
		for i := 0; i < n; i++ {
			priv := actorKey(idx)
			addr := sdk.AccAddress(priv.PubKey().Address())
			a := &Actor{Name: fmt.Sprintf("%s%d", role[:1], i), Role: role, Priv: priv, Addr: addr, Bech: addr.String()}
			a.Funds = 1000 * maxI64(w.Knobs.DeploymentMinDeposit, w.Knobs.BidMinDeposit)
			w.Actors = append(w.Actors, a)
			w.byAddr[a.Bech] = a
			idx++
		}
	}
	add("tenant", pre.Tenants)
	add("provider", pre.Providers)
	add("auditor", pre.Auditors)
	add("bystander", 1)
	w.Genesis = w.buildGenesis()
	w.genesisTime = w.Time
	for i := 0; i < nrep; i++ {
		w.Reps = append(w.Reps, w.bootReplicaInv(w.Genesis, uint(len(w.Reps)))) // replica i checks invariants every i blocks (0: never)
	}
	ctx := w.Reps[0].App.NewContext(true, tmproto.Header{Height: 1})
	ak := w.accountKeeper(w.Reps[0])
	for _, a := range w.Actors {
		a.AccNum = ak.GetAccount(ctx, a.Addr).GetAccountNumber()
	}
	w.Height = 1
	r.Logf("world (preset): tenants=%d providers=%d depMin=%d bidMin=%d", pre.Tenants, pre.Providers, w.Knobs.DeploymentMinDeposit, w.Knobs.BidMinDeposit)
	return w
}

func maxI64(a, b int64) int64 {
	if a > b {
		return a
	}
	return b
}

func (w *World) buildGenesis() []byte {
	gs := app.NewDefaultGenesisState()
	cdc := w.Cdc

	var authGen authtypes.GenesisState
	cdc.MustUnmarshalJSON(gs[authtypes.ModuleName], &authGen)
	var accs authtypes.GenesisAccounts
	var bals []banktypes.Balance
	supply := sdk.NewCoins()
	for _, a := range w.Actors {
		accs = append(accs, authtypes.NewBaseAccount(a.Addr, nil, 0, 0))
		c := sdk.NewCoins(sdk.NewInt64Coin(Denom, a.Funds), sdk.NewInt64Coin("xyz", 1000))
		bals = append(bals, banktypes.Balance{Address: a.Bech, Coins: c})
		supply = supply.Add(c...)
	}
	packed, err := authtypes.PackAccounts(accs)
	if err != nil {
		panic(err)
	}
	authGen.Accounts = packed
	gs[authtypes.ModuleName] = cdc.MustMarshalJSON(&authGen)

	var bankGen banktypes.GenesisState
	cdc.MustUnmarshalJSON(gs[banktypes.ModuleName], &bankGen)
	bankGen.Balances = bals
	bankGen.Supply = supply
	gs[banktypes.ModuleName] = cdc.MustMarshalJSON(&bankGen)

	var dGen dtypes.GenesisState
	cdc.MustUnmarshalJSON(gs[dtypes.ModuleName], &dGen)
	dGen.Params.DeploymentMinDeposit = sdk.NewInt64Coin(Denom, w.Knobs.DeploymentMinDeposit)
	gs[dtypes.ModuleName] = cdc.MustMarshalJSON(&dGen)

	var mGen mtypes.GenesisState
	cdc.MustUnmarshalJSON(gs[mtypes.ModuleName], &mGen)
	mGen.Params.BidMinDeposit = sdk.NewInt64Coin(Denom, w.Knobs.BidMinDeposit)
	mGen.Params.OrderMaxBids = w.Knobs.OrderMaxBids
	gs[mtypes.ModuleName] = cdc.MustMarshalJSON(&mGen)

	b, err := json.Marshal(gs)
	if err != nil {
		panic(err)
	}
	return b
}

func (w *World) bootReplica(genesis []byte) *Replica { return w.bootReplicaInv(genesis, 0) }

func (w *World) bootReplicaInv(genesis []byte, inv uint) *Replica {
	db := dbm.NewMemDB()
	a := newAppInv(db, inv)
	a.InitChain(abci.RequestInitChain{
		ChainId:         ChainID,
		Time:            w.Time,
		ConsensusParams: consensusParams(),
		Validators:      []abci.ValidatorUpdate{},
		AppStateBytes:   genesis,
	})
	a.Commit()
	return &Replica{App: a, DB: db, Inv: inv}
}

// consensusParams: simapp's defaults with an unlimited block gas limit (the 2,000,000 default of the
// test helper is not a property of the application and would make multi-transaction blocks fail).
func consensusParams() *abci.ConsensusParams {
	d := *simapp.DefaultConsensusParams
	blk := *d.Block
	blk.MaxGas = -1
	d.Block = &blk
	return &d
}

func (w *World) accountKeeper(rep *Replica) authkeeper.AccountKeeper {
	return authkeeper.NewAccountKeeper(w.Cdc, rep.App.GetKey(authtypes.StoreKey), rep.App.GetSubspace(authtypes.ModuleName),
		authtypes.ProtoBaseAccount, app.MacPerms())
}

func (w *World) bankView(rep *Replica) bankkeeper.BaseViewKeeper {
	return bankkeeper.NewBaseViewKeeper(w.Cdc, rep.App.GetKey(banktypes.StoreKey), w.accountKeeper(rep))
}

// Ctx returns a context reading the state as of now: the uncommitted deliver state inside a block,
// the last committed state otherwise.
func (w *World) Ctx(rep *Replica) sdk.Context {
	hdr := tmproto.Header{ChainID: ChainID, Height: w.Height, Time: w.Time}
	if rep.InBlock {
		return rep.App.NewContext(false, hdr)
	}
	return rep.App.NewContext(true, hdr)
}

func (w *World) Primary() *Replica { return w.Reps[0] }

func (w *World) ActorByAddr(bech string) *Actor { return w.byAddr[bech] }

func (w *World) ActorsOf(role string) []*Actor {
	var out []*Actor
	for _, a := range w.Actors {
		if a.Role == role {
			out = append(out, a)
		}
	}
	return out
}

// Sequence reads the account's current sequence from the primary replica's state.
func (w *World) Sequence(a *Actor) uint64 {
	acc := w.accountKeeper(w.Primary()).GetAccount(w.Ctx(w.Primary()), a.Addr)
	if acc == nil {
		return 0
	}
	return acc.GetSequence()
}

// BeginBlock starts block Height+1 on every live replica.
func (w *World) BeginBlock(dt time.Duration) {
	w.Height++
	w.Time = w.Time.Add(dt)
	w.curBlock = &BlockRec{Height: w.Height, Time: w.Time}
	for _, rep := range w.Reps {
		w.beginOn(rep, w.curBlock)
	}
	w.R.SimTime++
}

func (w *World) beginOn(rep *Replica, b *BlockRec) {
	hdr := tmproto.Header{ChainID: ChainID, Height: b.Height, Time: b.Time}
	rep.App.BeginBlock(abci.RequestBeginBlock{Header: hdr})
	rep.InBlock = true
	if b.MinDeposit != 0 {
		val := encCfg.Amino.MustMarshalJSON(sdk.NewInt64Coin(Denom, b.MinDeposit))
		if err := rep.App.GetSubspace(dtypes.ModuleName).Update(rep.App.NewContext(false, hdr), []byte("DeploymentMinDeposit"), val); err != nil {
			panic("harness: parameter change refused: " + err.Error())
		}
	}
}

// BeginBlockWithMinDeposit: as BeginBlock; an executed parameter-change proposal sets the deployment
// minimum deposit at the start of the block.
func (w *World) BeginBlockWithMinDeposit(dt time.Duration, min int64) {
	w.Height++
	w.Time = w.Time.Add(dt)
	w.curBlock = &BlockRec{Height: w.Height, Time: w.Time, MinDeposit: min}
	for _, rep := range w.Reps {
		w.beginOn(rep, w.curBlock)
	}
	w.Knobs.DeploymentMinDeposit = min
	w.R.SimTime++
}

// Deliver hands the tx to every live replica; results of replica 0 are returned, all results are
// kept for the determinism checker.
func (w *World) Deliver(txb []byte) []abci.ResponseDeliverTx {
	w.curBlock.Txs = append(w.curBlock.Txs, txb)
	out := make([]abci.ResponseDeliverTx, len(w.Reps))
	for i, rep := range w.Reps {
		out[i] = rep.App.DeliverTx(abci.RequestDeliverTx{Tx: txb})
	}
	return out
}

// EndBlock ends and commits the block on every live replica and returns the app hashes.
func (w *World) EndBlock() [][]byte {
	hashes := make([][]byte, len(w.Reps))
	for i, rep := range w.Reps {
		rep.App.EndBlock(abci.RequestEndBlock{Height: w.Height})
		rep.InBlock = false
		hashes[i] = rep.App.Commit().Data
	}
	w.BlockLog = append(w.BlockLog, *w.curBlock)
	w.curBlock = nil
	return hashes
}

// SignTx builds and signs a transaction carrying msgs with the given key (which need not be the
// key the messages require - that is the wrong-signer fault).
func (w *World) SignTx(msgs []sdk.Msg, signer *Actor, seq uint64, gas uint64) ([]byte, error) {
	gen := w.TxCfg
	signMode := gen.SignModeHandler().DefaultMode()
	sig := signing.SignatureV2{PubKey: signer.Priv.PubKey(), Data: &signing.SingleSignatureData{SignMode: signMode}, Sequence: seq}
	tx := gen.NewTxBuilder()
	if err := tx.SetMsgs(msgs...); err != nil {
		return nil, err
	}
	if err := tx.SetSignatures(sig); err != nil {
		return nil, err
	}
	tx.SetMemo("")
	tx.SetFeeAmount(sdk.NewCoins())
	tx.SetGasLimit(gas)
	signerData := authsign.SignerData{ChainID: ChainID, AccountNumber: signer.AccNum, Sequence: seq}
	signBytes, err := gen.SignModeHandler().GetSignBytes(signMode, signerData, tx.GetTx())
	if err != nil {
		return nil, err
	}
	sb, err := signer.Priv.Sign(signBytes)
	if err != nil {
		return nil, err
	}
	sig.Data.(*signing.SingleSignatureData).Signature = sb
	if err := tx.SetSignatures(sig); err != nil {
		return nil, err
	}
	return gen.TxEncoder()(tx.GetTx())
}

// Balance of an address in the simulation denom on the given replica, reading current state.
func (w *World) Balance(rep *Replica, addr sdk.AccAddress) sdk.Int {
	return w.bankView(rep).GetBalance(w.Ctx(rep), addr, Denom).Amount
}

func sortedStrings(m map[string]bool) []string {
	out := make([]string, 0, len(m))
	for k := range m {
		out = append(out, k)
	}
	sort.Strings(out)
	return out
}
