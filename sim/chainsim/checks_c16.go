package chainsim

import (
	"bytes"
	"fmt"
	"reflect"
	"sort"

	sdk "github.com/cosmos/cosmos-sdk/types"
	abci "github.com/tendermint/tendermint/abci/types"

	"verifsim/evparse"
	"github.com/ovrclk/akash/sdkutil"
	atypes "github.com/ovrclk/akash/x/audit/types"
	dtypes "github.com/ovrclk/akash/x/deployment/types"
	mtypes "github.com/ovrclk/akash/x/market/types"
	ptypes "github.com/ovrclk/akash/x/provider/types"

	"verifsim/core"
)

// ---------------------------------------------------------------- C16

// canonical text of a typed event, leaving out the unexported-by-contract Context bookkeeping field
func evKey(ev interface{}) string {
	switch e := ev.(type) {
	case mtypes.EventOrderCreated:
		return "order-created " + oid(e.ID)
	case mtypes.EventOrderClosed:
		return "order-closed " + oid(e.ID)
	case mtypes.EventBidCreated:
		return "bid-created " + bid(e.ID) + " " + e.Price.String()
	case mtypes.EventBidClosed:
		return "bid-closed " + bid(e.ID) + " " + e.Price.String()
	case mtypes.EventLeaseCreated:
		return "lease-created " + lid(e.ID) + " " + e.Price.String()
	case mtypes.EventLeaseClosed:
		return "lease-closed " + lid(e.ID) + " " + e.Price.String()
	case dtypes.EventDeploymentCreated:
		return fmt.Sprintf("deployment-created %s %x", did(e.ID), e.Version)
	case dtypes.EventDeploymentUpdated:
		return fmt.Sprintf("deployment-updated %s %x", did(e.ID), e.Version)
	case dtypes.EventDeploymentClosed:
		return "deployment-closed " + did(e.ID)
	case dtypes.EventGroupClosed:
		return "group-closed " + gid(e.ID)
	case dtypes.EventGroupPaused:
		return "group-paused " + gid(e.ID)
	case dtypes.EventGroupStarted:
		return "group-started " + gid(e.ID)
	case ptypes.EventProviderCreated:
		return "provider-created " + e.Owner.String()
	case ptypes.EventProviderUpdated:
		return "provider-updated " + e.Owner.String()
	case ptypes.EventProviderDeleted:
		return "provider-deleted " + e.Owner.String()
	case atypes.EventTrustedAuditorCreated:
		return "attestation-created " + e.Owner.String() + " " + e.Auditor.String()
	case atypes.EventTrustedAuditorDeleted:
		return "attestation-deleted " + e.Owner.String() + " " + e.Auditor.String()
	}
	return fmt.Sprintf("unknown-event %T", ev)
}

// kinds for which "no spurious event" is stated
func strictKind(key string) bool {
	for _, p := range []string{"order-created", "order-closed", "bid-created", "bid-closed", "lease-created", "lease-closed",
		"deployment-created", "deployment-closed", "group-closed", "group-paused", "group-started", "provider-created"} {
		if len(key) > len(p) && key[:len(p)+1] == p+" " {
			return true
		}
	}
	return false
}

// expectedEvents derives, from the state change of a transaction alone, the events it must have emitted.
func expectedEvents(c *TxCtx) (must []string, may map[string]bool) {
	may = map[string]bool{}
	b, a := c.Before, c.After
	for _, k := range keysOf(a.Orders) {
		o := a.Orders[k]
		ob, had := b.Orders[k]
		if !had {
			must = append(must, evKey(mtypes.EventOrderCreated{ID: o.OrderID}))
		}
		if o.State == mtypes.OrderClosed && (!had || ob.State != mtypes.OrderClosed) {
			must = append(must, evKey(mtypes.EventOrderClosed{ID: o.OrderID}))
		}
	}
	for _, k := range keysOf(a.Bids) {
		x := a.Bids[k]
		xb, had := b.Bids[k]
		if !had {
			must = append(must, evKey(mtypes.EventBidCreated{ID: x.BidID, Price: x.Price}))
		}
		if x.State == mtypes.BidClosed && (!had || xb.State != mtypes.BidClosed) {
			must = append(must, evKey(mtypes.EventBidClosed{ID: x.BidID, Price: x.Price}))
		}
		// a bid that lost is in state "lost", not "closed": no bid-closed event is due for it, and none is
		// tolerated ("no closed event is emitted for an object that did not change in that way")
	}
	for _, k := range keysOf(a.Leases) {
		x := a.Leases[k]
		xb, had := b.Leases[k]
		if !had {
			must = append(must, evKey(mtypes.EventLeaseCreated{ID: x.LeaseID, Price: x.Price}))
		}
		if x.State != mtypes.LeaseActive && (!had || xb.State == mtypes.LeaseActive) {
			must = append(must, evKey(mtypes.EventLeaseClosed{ID: x.LeaseID, Price: x.Price}))
		}
	}
	for _, k := range keysOf(a.Deployments) {
		x := a.Deployments[k]
		xb, had := b.Deployments[k]
		if !had {
			must = append(must, evKey(dtypes.EventDeploymentCreated{ID: x.DeploymentID, Version: x.Version}))
		} else if !bytes.Equal(x.Version, xb.Version) {
			must = append(must, evKey(dtypes.EventDeploymentUpdated{ID: x.DeploymentID, Version: x.Version}))
		}
		if x.State == dtypes.DeploymentClosed && (!had || xb.State != dtypes.DeploymentClosed) {
			must = append(must, evKey(dtypes.EventDeploymentClosed{ID: x.DeploymentID}))
		}
	}
	for _, k := range keysOf(a.Groups) {
		x := a.Groups[k]
		xb, had := b.Groups[k]
		if !had {
			continue
		}
		if x.State == xb.State {
			continue
		}
		switch x.State {
		case dtypes.GroupPaused:
			must = append(must, evKey(dtypes.EventGroupPaused{ID: x.GroupID}))
		case dtypes.GroupOpen:
			must = append(must, evKey(dtypes.EventGroupStarted{ID: x.GroupID}))
		case dtypes.GroupClosed, dtypes.GroupInsufficientFunds:
			must = append(must, evKey(dtypes.EventGroupClosed{ID: x.GroupID}))
			if xb.State == dtypes.GroupOpen {
				// open -> paused -> closed inside one transaction (close-bid pauses the group, the
				// settlement it triggers may then exhaust the escrow): the pause did happen
				may[evKey(dtypes.EventGroupPaused{ID: x.GroupID})] = true
			}
		}
	}
	for _, k := range keysOf(a.Providers) {
		x := a.Providers[k]
		xb, had := b.Providers[k]
		if !had {
			must = append(must, evKey(ptypes.EventProviderCreated{Owner: mustAddr(x.Owner)}))
		} else if !reflect.DeepEqual(x, xb) {
			must = append(must, evKey(ptypes.EventProviderUpdated{Owner: mustAddr(x.Owner)}))
		}
	}
	for _, k := range keysOf(a.Attest) {
		x := a.Attest[k]
		xb, had := b.Attest[k]
		if _, isSign := c.Op.Msg.(*atypes.MsgSignProviderAttributes); isSign && (!had || !reflect.DeepEqual(x, xb)) {
			must = append(must, evKey(atypes.EventTrustedAuditorCreated{Owner: mustAddr(x.Owner), Auditor: mustAddr(x.Auditor)}))
		}
	}
	sort.Strings(must)
	return must, may
}

func (cs *checkerSet) c16Tx(c *TxCtx) *core.Violation {
	r := cs.r
	if !c.OK {
		return nil
	}
	var got []string
	for _, ev := range c.Res.Events {
		if ev.Type != sdkutil.EventTypeMessage {
			continue
		}
		r.Count("probe:akash-events")
		typed, ok := evparse.Process(ev)
		if !ok {
			return r.Flag("C16/event-not-decodable", "%s emitted %s which the provider's event parser does not decode", c.Op.Kind, showEvent(ev))
		}
		me, isME := typed.(sdkutil.ModuleEvent)
		if !isME {
			return r.Flag("C16/event-not-module-event", "decoded %T is not a module event", typed)
		}
		// re-encoding of the decoded event equals the emitted one, attribute for attribute
		re := abci.Event(me.ToSDKEvent())
		if d := diffAttrs(ev, re); d != "" {
			return r.Flag("C16/event-roundtrip", "%s emitted %s; decoded as %s which re-encodes differently: %s", c.Op.Kind, showEvent(ev), evKey(typed), d)
		}
		got = append(got, evKey(typed))
	}
	sort.Strings(got)
	must, may := expectedEvents(c)
	gotN := map[string]int{}
	for _, k := range got {
		gotN[k]++
	}
	mustN := map[string]int{}
	for _, k := range must {
		mustN[k]++
	}
	for _, k := range must {
		if gotN[k] != mustN[k] {
			return r.Flag("C16/event-missing-or-repeated", "%s: state change requires event [%s] exactly %d time(s), emitted %d time(s); emitted: %v",
				describeOp(c.W, c.Op), k, mustN[k], gotN[k], got)
		}
	}
	for _, k := range got {
		if mustN[k] == 0 && strictKind(k) && !may[k] {
			return r.Flag("C16/spurious-event", "%s: emitted [%s] but no object changed that way; expected: %v", describeOp(c.W, c.Op), k, must)
		}
	}
	if len(must) > 1 {
		r.Count("probe:multi-event-tx")
	}
	for _, k := range must {
		if len(k) > 12 && (k[:12] == "group-closed" || k[:12] == "lease-closed") {
			if _, direct := c.Op.Msg.(*mtypes.MsgWithdrawLease); direct {
				r.Count("probe:indirect-close-via-withdraw")
			}
		}
	}
	return nil
}

func showEvent(ev abci.Event) string {
	var b bytes.Buffer
	b.WriteString(ev.Type + "{")
	for _, a := range ev.Attributes {
		fmt.Fprintf(&b, "%s=%s ", a.Key, a.Value)
	}
	b.WriteString("}")
	return b.String()
}

func diffAttrs(a, b abci.Event) string {
	if a.Type != b.Type {
		return "type " + a.Type + " vs " + b.Type
	}
	am := sdk.StringifyEvent(a)
	bm := sdk.StringifyEvent(b)
	if len(am.Attributes) != len(bm.Attributes) {
		return fmt.Sprintf("%d vs %d attributes", len(am.Attributes), len(bm.Attributes))
	}
	for i := range am.Attributes {
		if am.Attributes[i] != bm.Attributes[i] {
			return fmt.Sprintf("attribute %d: %v vs %v", i, am.Attributes[i], bm.Attributes[i])
		}
	}
	return ""
}
