package chainsim

import (
	"bytes"
	"crypto/sha256"
	"encoding/hex"
	"encoding/json"
	"fmt"
	"io"
	"os"
	"os/exec"
	"path/filepath"
	"runtime"
	"strings"
	"time"

	abci "github.com/tendermint/tendermint/abci/types"
	dbm "github.com/tendermint/tm-db"

	mtypes "github.com/ovrclk/akash/x/market/types"
	ptypes "github.com/ovrclk/akash/x/provider/types"

	"verifsim/core"
)

// ---------------------------------------------------------------- C07

func resHash(r abci.ResponseDeliverTx) string {
	b, err := r.Marshal()
	if err != nil {
		panic(err)
	}
	h := sha256.Sum256(b)
	return hex.EncodeToString(h[:8])
}

func (cs *checkerSet) c07Tx(c *TxCtx) *core.Violation {
	r := cs.r
	b0, _ := c.All[0].Marshal()
	for i := 1; i < len(c.All); i++ {
		bi, _ := c.All[i].Marshal()
		if !bytes.Equal(b0, bi) {
			return r.Flag("C07/deliver-result-diverged", "%s: replica 0 and replica %d returned different results: code %d/%d log %q/%q events %d/%d gas %d/%d",
				describeOp(c.W, c.Op), i, c.All[0].Code, c.All[i].Code, c.All[0].Log, c.All[i].Log, len(c.All[0].Events), len(c.All[i].Events), c.All[0].GasUsed, c.All[i].GasUsed)
		}
	}
	cs.txHashes = append(cs.txHashes, resHash(c.All[0]))
	if c.OK {
		// an escrow account that ends while it pays two or more different payees (bulk payout)
		for _, k := range keysOf(c.Before.Accounts) {
			if c.Before.Accounts[k].State == c.After.Accounts[k].State {
				continue
			}
			owners := map[string]bool{}
			for pk, p := range c.Before.Payments {
				if strings.HasPrefix(pk, k+"/") && p.State != c.After.Payments[pk].State {
					owners[p.Owner] = true
				}
			}
			if len(owners) >= 2 {
				r.Count("probe:account-ends-paying-2+-payees")
			}
		}
	}
	if m, ok := c.Op.Msg.(*ptypes.MsgUpdateProvider); ok {
		n := 0
		for _, l := range c.Before.Leases {
			if l.LeaseID.Provider == m.Owner && l.State == mtypes.LeaseActive {
				n++
			}
		}
		if n >= 2 {
			r.Count("probe:update-provider-with-2+-active-leases")
			if !c.OK {
				r.Count("probe:update-provider-with-2+-active-leases-rejected")
			}
		}
	}
	if c.OK {
		switch c.Op.Kind {
		case "SignProviderAttributes":
			if rec, ok := c.Before.Attest[attKeyOf(c)]; ok && len(rec.Attributes) >= 2 {
				r.Count("probe:attestation-merge-2+")
			}
		case "DeleteProviderAttributes":
			if rec, ok := c.After.Attest[attKeyOf(c)]; ok && len(rec.Attributes) >= 1 {
				r.Count("probe:attestation-partial-delete")
			}
		}
	}
	return nil
}

func startDesc(in ReexecInput) string {
	if in.DB != nil {
		return fmt.Sprintf("the node's disk after block %d", in.From)
	}
	return "genesis"
}

// dumpDisk copies the primary replica's store contents (the only durable state of a node).
func (cs *checkerSet) dumpDisk(w *World) {
	it, err := w.Primary().DB.Iterator(nil, nil)
	if err != nil {
		panic(err)
	}
	defer it.Close()
	cs.dbDump = nil
	for ; it.Valid(); it.Next() {
		cs.dbDump = append(cs.dbDump, [2][]byte{append([]byte{}, it.Key()...), append([]byte{}, it.Value()...)})
	}
	cs.dbDumpAt = len(w.BlockLog)
}

func attKeyOf(c *TxCtx) string {
	_, sc := assignedParty(c.Op.Msg)
	return sc.attOwner + "|" + sc.attAud
}

// ReexecInput is what a child process needs to replay a recorded history from genesis.
type ReexecInput struct {
	Genesis []byte     `json:"genesis"`
	Time    time.Time  `json:"time"`
	Blocks  []BlockRec `json:"blocks"`
	// when DB is set the child does not start from genesis: it loads this dump of the node's disk
	// (taken after block Blocks[From-1]) into a fresh store - a node restarted in a new process, or
	// state-synced - and replays Blocks[From:]
	DB   [][2][]byte `json:"db,omitempty"`
	From int         `json:"from"`
}

type ReexecOutput struct {
	AppHashes []string `json:"app_hashes"`
	TxHashes  []string `json:"tx_hashes"`
}

// Reexec is run in a separate OS process: boots a fresh application from the genesis and applies
// the recorded blocks.
func Reexec(path string) int { return ReexecTo(path, os.Stdout) }

// ReexecTo is Reexec with the result written to out (the skewed-clock child is a test binary whose
// standard output carries the testing package's own lines).
func ReexecTo(path string, out0 io.Writer) int {
	b, err := os.ReadFile(path)
	if err != nil {
		fmt.Fprintln(os.Stderr, err)
		return 2
	}
	var in ReexecInput
	if err := json.Unmarshal(b, &in); err != nil {
		fmt.Fprintln(os.Stderr, err)
		return 2
	}
	w := &World{Time: in.Time, Cdc: encCfg.Marshaler, TxCfg: encCfg.TxConfig}
	var rep *Replica
	if in.DB != nil {
		db := dbm.NewMemDB()
		for _, kv := range in.DB {
			if err := db.Set(kv[0], kv[1]); err != nil {
				panic(err)
			}
		}
		rep = &Replica{App: newApp(db), DB: db}
	} else {
		rep = w.bootReplica(in.Genesis)
		in.From = 0
	}
	var out ReexecOutput
	for _, blk := range in.Blocks[in.From:] {
		b := blk
		w.beginOn(rep, &b)
		for _, tx := range blk.Txs {
			if os.Getenv("VERIF_REEXEC_GC") == "1" {
				// memory layout and collector timing are the node's own business: this node collects
				// garbage before every transaction (whatever the code parks in sync.Pools is gone)
				runtime.GC()
				runtime.GC()
			}
			out.TxHashes = append(out.TxHashes, resHash(rep.App.DeliverTx(abci.RequestDeliverTx{Tx: tx})))
		}
		rep.App.EndBlock(abci.RequestEndBlock{Height: blk.Height})
		out.AppHashes = append(out.AppHashes, hex.EncodeToString(rep.App.Commit().Data))
	}
	ob, _ := json.Marshal(out)
	out0.Write(ob)
	return 0
}

// crossProcess re-executes the whole recorded history in a fresh OS process (other address space,
// other map seeds) and compares every transaction result and every app hash.
func (cs *checkerSet) crossProcess(w *World) *core.Violation {
	r := cs.r
	in := ReexecInput{Genesis: w.Genesis, Time: w.genesisTime, Blocks: w.BlockLog}
	skipTx := 0
	if cs.dbDump != nil && r.Bool(60, "c07.fromdisk") {
		in.DB, in.From = cs.dbDump, cs.dbDumpAt
		for _, b := range w.BlockLog[:in.From] {
			skipTx += len(b.Txs)
		}
		r.Count("probe:cross-process-restart-from-disk")
	}
	mineApp, mineTx := cs.appHashes[in.From:], cs.txHashes[skipTx:]
	b, _ := json.Marshal(in)
	f, err := os.CreateTemp("", "verif-reexec-*.json")
	if err != nil {
		panic(err)
	}
	defer os.Remove(f.Name())
	f.Write(b)
	f.Close()
	// the child's wall clock: the real one, or (clock-skew fault) a simulated one set to 2000-01-01 plus
	// a drawn number of years - a node replaying the history at another time, or with a wrong clock
	skewYears := []int{0, 0, 3, 11, 23, 26, 27, 30, 45, 95}[r.Choose(10, "c07.child-clock")]
	childGC := r.Bool(50, "c07.child-gc")
	gcEnv := "VERIF_REEXEC_GC=0"
	if childGC {
		gcEnv = "VERIF_REEXEC_GC=1"
		r.Count("fault:child-collects-garbage-before-every-tx")
	}
	var stdout, stderr bytes.Buffer
	var outBytes []byte
	if skewYears == 0 {
		cmd := exec.Command(os.Args[0], "-reexec", f.Name())
		cmd.Env = append(os.Environ(), gcEnv)
		cmd.Stdout, cmd.Stderr = &stdout, &stderr
		if err := cmd.Run(); err != nil {
			panic(fmt.Sprintf("re-execution child failed: %v\n%s", err, stderr.String()))
		}
		outBytes = stdout.Bytes()
	} else {
		bin := filepath.Join(filepath.Dir(os.Args[0]), "chainsim.test")
		of := f.Name() + ".out"
		defer os.Remove(of)
		cmd := exec.Command(bin, "-test.run=^TestReexecSkewed$", "-test.count=1")
		cmd.Env = append(os.Environ(), gcEnv, "VERIF_REEXEC_FILE="+f.Name(), "VERIF_REEXEC_OUT="+of, fmt.Sprintf("VERIF_REEXEC_SKEW_YEARS=%d", skewYears))
		cmd.Stdout, cmd.Stderr = &stdout, &stderr
		if err := cmd.Run(); err != nil {
			panic(fmt.Sprintf("skewed-clock re-execution child failed: %v\n%s\n%s", err, stdout.String(), stderr.String()))
		}
		if outBytes, err = os.ReadFile(of); err != nil {
			panic(fmt.Sprintf("skewed-clock re-execution child wrote no result: %v\n%s", err, stdout.String()))
		}
		r.Count("fault:child-wall-clock-skewed")
	}
	clockDesc := ""
	if skewYears != 0 {
		clockDesc = fmt.Sprintf(", wall clock set to the year %d", 2000+skewYears)
	}
	var out ReexecOutput
	if err := json.Unmarshal(outBytes, &out); err != nil {
		panic(fmt.Sprintf("re-execution child output: %v", err))
	}
	r.Count("probe:cross-process-reexecutions")
	if len(out.AppHashes) != len(mineApp) || len(out.TxHashes) != len(mineTx) {
		return r.Flag("C07/cross-process-length", "child process produced %d blocks/%d txs, this process %d/%d", len(out.AppHashes), len(out.TxHashes), len(mineApp), len(mineTx))
	}
	for i := range out.TxHashes {
		if out.TxHashes[i] != mineTx[i] {
			return r.Flag("C07/cross-process-tx-result", "transaction #%d: result differs between this process and a fresh process executing the same history (child started from %s%s)", skipTx+i+1, startDesc(in), clockDesc)
		}
	}
	for i := range out.AppHashes {
		if out.AppHashes[i] != mineApp[i] {
			return r.Flag("C07/cross-process-apphash", "block %d (height %d): app hash differs between this process and a fresh process executing the same history (child started from %s%s)", in.From+i, w.BlockLog[in.From+i].Height, startDesc(in), clockDesc)
		}
	}
	return nil
}
