package chainsim

import (
	"bytes"
	"crypto/sha256"
	"encoding/hex"
	"encoding/json"
	"fmt"
	"os"
	"os/exec"
	"time"

	abci "github.com/tendermint/tendermint/abci/types"
	dbm "github.com/tendermint/tm-db"

	"verifsim/core"
)

// ---------------------------------------------------------------- C07

func resHash(r abci.ResponseDeliverTx) string {
	b, err := r.Marshal()
	if err != nil {
		panic(err)
	}
	h := sha256.Sum256(b)
	return hex.EncodeToString(h[:8])
}

func (cs *checkerSet) c07Tx(c *TxCtx) *core.Violation {
	r := cs.r
	b0, _ := c.All[0].Marshal()
	for i := 1; i < len(c.All); i++ {
		bi, _ := c.All[i].Marshal()
		if !bytes.Equal(b0, bi) {
			return r.Flag("C07/deliver-result-diverged", "%s: replica 0 and replica %d returned different results: code %d/%d log %q/%q events %d/%d gas %d/%d",
				describeOp(c.W, c.Op), i, c.All[0].Code, c.All[i].Code, c.All[0].Log, c.All[i].Log, len(c.All[0].Events), len(c.All[i].Events), c.All[0].GasUsed, c.All[i].GasUsed)
		}
	}
	cs.txHashes = append(cs.txHashes, resHash(c.All[0]))
	if c.OK {
		switch c.Op.Kind {
		case "SignProviderAttributes":
			if rec, ok := c.Before.Attest[attKeyOf(c)]; ok && len(rec.Attributes) >= 2 {
				r.Count("probe:attestation-merge-2+")
			}
		case "DeleteProviderAttributes":
			if rec, ok := c.After.Attest[attKeyOf(c)]; ok && len(rec.Attributes) >= 1 {
				r.Count("probe:attestation-partial-delete")
			}
		}
	}
	return nil
}

func startDesc(in ReexecInput) string {
	if in.DB != nil {
		return fmt.Sprintf("the node's disk after block %d", in.From)
	}
	return "genesis"
}

// dumpDisk copies the primary replica's store contents (the only durable state of a node).
func (cs *checkerSet) dumpDisk(w *World) {
	it, err := w.Primary().DB.Iterator(nil, nil)
	if err != nil {
		panic(err)
	}
	defer it.Close()
	cs.dbDump = nil
	for ; it.Valid(); it.Next() {
		cs.dbDump = append(cs.dbDump, [2][]byte{append([]byte{}, it.Key()...), append([]byte{}, it.Value()...)})
	}
	cs.dbDumpAt = len(w.BlockLog)
}

func attKeyOf(c *TxCtx) string {
	_, sc := assignedParty(c.Op.Msg)
	return sc.attOwner + "|" + sc.attAud
}

// ReexecInput is what a child process needs to replay a recorded history from genesis.
type ReexecInput struct {
	Genesis []byte     `json:"genesis"`
	Time    time.Time  `json:"time"`
	Blocks  []BlockRec `json:"blocks"`
	// when DB is set the child does not start from genesis: it loads this dump of the node's disk
	// (taken after block Blocks[From-1]) into a fresh store - a node restarted in a new process, or
	// state-synced - and replays Blocks[From:]
	DB   [][2][]byte `json:"db,omitempty"`
	From int         `json:"from"`
}

type ReexecOutput struct {
	AppHashes []string `json:"app_hashes"`
	TxHashes  []string `json:"tx_hashes"`
}

// Reexec is run in a separate OS process: boots a fresh application from the genesis and applies
// the recorded blocks.
func Reexec(path string) int {
	b, err := os.ReadFile(path)
	if err != nil {
		fmt.Fprintln(os.Stderr, err)
		return 2
	}
	var in ReexecInput
	if err := json.Unmarshal(b, &in); err != nil {
		fmt.Fprintln(os.Stderr, err)
		return 2
	}
	w := &World{Time: in.Time, Cdc: encCfg.Marshaler, TxCfg: encCfg.TxConfig}
	var rep *Replica
	if in.DB != nil {
		db := dbm.NewMemDB()
		for _, kv := range in.DB {
			if err := db.Set(kv[0], kv[1]); err != nil {
				panic(err)
			}
		}
		rep = &Replica{App: newApp(db), DB: db}
	} else {
		rep = w.bootReplica(in.Genesis)
		in.From = 0
	}
	var out ReexecOutput
	for _, blk := range in.Blocks[in.From:] {
		b := blk
		w.beginOn(rep, &b)
		for _, tx := range blk.Txs {
			out.TxHashes = append(out.TxHashes, resHash(rep.App.DeliverTx(abci.RequestDeliverTx{Tx: tx})))
		}
		rep.App.EndBlock(abci.RequestEndBlock{Height: blk.Height})
		out.AppHashes = append(out.AppHashes, hex.EncodeToString(rep.App.Commit().Data))
	}
	ob, _ := json.Marshal(out)
	os.Stdout.Write(ob)
	return 0
}

// crossProcess re-executes the whole recorded history in a fresh OS process (other address space,
// other map seeds) and compares every transaction result and every app hash.
func (cs *checkerSet) crossProcess(w *World) *core.Violation {
	r := cs.r
	in := ReexecInput{Genesis: w.Genesis, Time: w.genesisTime, Blocks: w.BlockLog}
	skipTx := 0
	if cs.dbDump != nil && r.Bool(60, "c07.fromdisk") {
		in.DB, in.From = cs.dbDump, cs.dbDumpAt
		for _, b := range w.BlockLog[:in.From] {
			skipTx += len(b.Txs)
		}
		r.Count("probe:cross-process-restart-from-disk")
	}
	mineApp, mineTx := cs.appHashes[in.From:], cs.txHashes[skipTx:]
	b, _ := json.Marshal(in)
	f, err := os.CreateTemp("", "verif-reexec-*.json")
	if err != nil {
		panic(err)
	}
	defer os.Remove(f.Name())
	f.Write(b)
	f.Close()
	cmd := exec.Command(os.Args[0], "-reexec", f.Name())
	var stdout, stderr bytes.Buffer
	cmd.Stdout, cmd.Stderr = &stdout, &stderr
	if err := cmd.Run(); err != nil {
		panic(fmt.Sprintf("re-execution child failed: %v\n%s", err, stderr.String()))
	}
	var out ReexecOutput
	if err := json.Unmarshal(stdout.Bytes(), &out); err != nil {
		panic(fmt.Sprintf("re-execution child output: %v", err))
	}
	r.Count("probe:cross-process-reexecutions")
	if len(out.AppHashes) != len(mineApp) || len(out.TxHashes) != len(mineTx) {
		return r.Flag("C07/cross-process-length", "child process produced %d blocks/%d txs, this process %d/%d", len(out.AppHashes), len(out.TxHashes), len(mineApp), len(mineTx))
	}
	for i := range out.TxHashes {
		if out.TxHashes[i] != mineTx[i] {
			return r.Flag("C07/cross-process-tx-result", "transaction #%d: result differs between this process and a fresh process executing the same history (child started from %s)", skipTx+i+1, startDesc(in))
		}
	}
	for i := range out.AppHashes {
		if out.AppHashes[i] != mineApp[i] {
			return r.Flag("C07/cross-process-apphash", "block %d (height %d): app hash differs between this process and a fresh process executing the same history (child started from %s)", in.From+i, w.BlockLog[in.From+i].Height, startDesc(in))
		}
	}
	return nil
}
