package chainsim

import (
	"bytes"
	"encoding/binary"
	"fmt"
	"math/big"
	"strconv"
	"strings"

	sdk "github.com/cosmos/cosmos-sdk/types"
	banktypes "github.com/cosmos/cosmos-sdk/x/bank/types"

	"github.com/ovrclk/akash/types"
	atypes "github.com/ovrclk/akash/x/audit/types"
	ctypes "github.com/ovrclk/akash/x/cert/types"
	dtypes "github.com/ovrclk/akash/x/deployment/types"
	mtypes "github.com/ovrclk/akash/x/market/types"
	ptypes "github.com/ovrclk/akash/x/provider/types"

	"verifsim/core"
)

// ---------------------------------------------------------------- C06

// scope of a message: what it names.  dep = (owner,dseq) of the deployment; bidAcct = the bid deposit
// account it may touch; provider / attestation / certificate keys.
type scope struct {
	depOwner string
	dseq     uint64
	hasDep   bool
	gseq     uint32        // when non-zero: the message names a group (or an order/bid/lease of it)
	onlyBid  *mtypes.BidID // CreateBid: nothing but this bid and its deposit account
	provider string        // provider store record of this owner
	attOwner string        // audit record (owner, auditor)
	attAud   string
	certOwn  string
	certSer  *big.Int // revoke: the one certificate it names (serial read as a decimal number)
	none     bool // no akash record may change (bank send)
}

// assignedParty is the table of the statement: who must sign which action.
func assignedParty(msg sdk.Msg) (string, scope) {
	switch m := msg.(type) {
	case *dtypes.MsgCreateDeployment:
		return m.ID.Owner, scope{depOwner: m.ID.Owner, dseq: m.ID.DSeq, hasDep: true}
	case *dtypes.MsgDepositDeployment:
		return m.ID.Owner, scope{depOwner: m.ID.Owner, dseq: m.ID.DSeq, hasDep: true}
	case *dtypes.MsgUpdateDeployment:
		return m.ID.Owner, scope{depOwner: m.ID.Owner, dseq: m.ID.DSeq, hasDep: true}
	case *dtypes.MsgCloseDeployment:
		return m.ID.Owner, scope{depOwner: m.ID.Owner, dseq: m.ID.DSeq, hasDep: true}
	case *dtypes.MsgCloseGroup:
		return m.ID.Owner, scope{depOwner: m.ID.Owner, dseq: m.ID.DSeq, hasDep: true, gseq: m.ID.GSeq}
	case *dtypes.MsgPauseGroup:
		return m.ID.Owner, scope{depOwner: m.ID.Owner, dseq: m.ID.DSeq, hasDep: true, gseq: m.ID.GSeq}
	case *dtypes.MsgStartGroup:
		return m.ID.Owner, scope{depOwner: m.ID.Owner, dseq: m.ID.DSeq, hasDep: true, gseq: m.ID.GSeq}
	case *mtypes.MsgCreateLease:
		return m.BidID.Owner, scope{depOwner: m.BidID.Owner, dseq: m.BidID.DSeq, hasDep: true, gseq: m.BidID.GSeq}
	case *mtypes.MsgCloseLease:
		return m.LeaseID.Owner, scope{depOwner: m.LeaseID.Owner, dseq: m.LeaseID.DSeq, hasDep: true, gseq: m.LeaseID.GSeq}
	case *mtypes.MsgCreateBid:
		b := mtypes.MakeBidID(m.Order, mustAddr(m.Provider))
		return m.Provider, scope{onlyBid: &b}
	case *mtypes.MsgCloseBid:
		return m.BidID.Provider, scope{depOwner: m.BidID.Owner, dseq: m.BidID.DSeq, hasDep: true, gseq: m.BidID.GSeq}
	case *mtypes.MsgWithdrawLease:
		return m.LeaseID.Provider, scope{depOwner: m.LeaseID.Owner, dseq: m.LeaseID.DSeq, hasDep: true, gseq: m.LeaseID.GSeq}
	case *ptypes.MsgCreateProvider:
		return m.Owner, scope{provider: m.Owner}
	case *ptypes.MsgUpdateProvider:
		return m.Owner, scope{provider: m.Owner}
	case *atypes.MsgSignProviderAttributes:
		return m.Auditor, scope{attOwner: m.Owner, attAud: m.Auditor}
	case *atypes.MsgDeleteProviderAttributes:
		return m.Auditor, scope{attOwner: m.Owner, attAud: m.Auditor}
	case *ctypes.MsgCreateCertificate:
		return m.Owner, scope{certOwn: m.Owner}
	case *ctypes.MsgRevokeCertificate:
		ser, ok := new(big.Int).SetString(m.ID.Serial, 10)
		if !ok {
			ser = big.NewInt(-1) // names no certificate
		}
		return m.ID.Owner, scope{certOwn: m.ID.Owner, certSer: ser}
	case *banktypes.MsgSend:
		return m.FromAddress, scope{none: true}
	}
	panic(fmt.Sprintf("no party table entry for %T", msg))
}

// providerOfAction: the provider whose bid or lease a provider-assigned market action names.
func providerOfAction(msg sdk.Msg) string {
	switch m := msg.(type) {
	case *mtypes.MsgCloseBid:
		return m.BidID.Provider
	case *mtypes.MsgWithdrawLease:
		return m.LeaseID.Provider
	}
	return ""
}

const bechLen = 45 // length of a cosmos1... bech32 account address (20 byte payload)

// parseDepKey parses owner and dseq out of a deployment- or market-store key (documented layout:
// prefix | owner bech32 | dseq u64 BE | [gseq u32 | [oseq u32 | [provider bech32]]]).
func parseDepKey(k []byte, prefixLen int) (owner string, dseq uint64, rest []byte, ok bool) {
	if len(k) < prefixLen+bechLen+8 {
		return "", 0, nil, false
	}
	owner = string(k[prefixLen : prefixLen+bechLen])
	dseq = binary.BigEndian.Uint64(k[prefixLen+bechLen:])
	return owner, dseq, k[prefixLen+bechLen+8:], true
}

// inScope decides whether one changed key belongs to what the message names.
func inScope(ch KVChange, sc scope) (bool, string) {
	switch ch.Store {
	case "deployment":
		o, d, _, ok := parseDepKey(ch.Key, 1)
		if !ok {
			return false, "unparseable deployment-store key"
		}
		if sc.hasDep && o == sc.depOwner && d == sc.dseq {
			return true, ""
		}
		return false, fmt.Sprintf("deployment-store record of %s/%d", o, d)
	case "market":
		o, d, rest, ok := parseDepKey(ch.Key, 2)
		if !ok {
			return false, "unparseable market-store key"
		}
		if sc.hasDep && o == sc.depOwner && d == sc.dseq {
			return true, ""
		}
		if sc.onlyBid != nil && ch.Key[0] == 0x02 && o == sc.onlyBid.Owner && d == sc.onlyBid.DSeq && len(rest) == 8+bechLen &&
			binary.BigEndian.Uint32(rest) == sc.onlyBid.GSeq && binary.BigEndian.Uint32(rest[4:]) == sc.onlyBid.OSeq && string(rest[8:]) == sc.onlyBid.Provider {
			return true, ""
		}
		return false, fmt.Sprintf("market-store record (type %d) of %s/%d", ch.Key[0], o, d)
	case "escrow":
		// prefix byte, then "/scope/owner/dseq[/gseq/oseq/provider][/pid...]"
		parts := strings.Split(string(ch.Key[1:]), "/")
		if len(parts) < 4 || parts[0] != "" {
			return false, "unparseable escrow key"
		}
		d, err := strconv.ParseUint(parts[3], 10, 64)
		if err != nil {
			return false, "unparseable escrow key (dseq)"
		}
		o := parts[2]
		if sc.hasDep && o == sc.depOwner && d == sc.dseq {
			return true, ""
		}
		if sc.onlyBid != nil && ch.Key[0] == 0x01 && parts[1] == "bid" && len(parts) == 7 && o == sc.onlyBid.Owner && d == sc.onlyBid.DSeq &&
			parts[4] == strconv.FormatUint(uint64(sc.onlyBid.GSeq), 10) && parts[5] == strconv.FormatUint(uint64(sc.onlyBid.OSeq), 10) && parts[6] == sc.onlyBid.Provider {
			return true, ""
		}
		return false, fmt.Sprintf("escrow record %q", string(ch.Key[1:]))
	case "provider":
		if sc.provider != "" && bytes.Equal(ch.Key, mustAddr(sc.provider).Bytes()) {
			return true, ""
		}
		return false, fmt.Sprintf("provider record of %s", sdk.AccAddress(ch.Key))
	case "audit":
		if sc.attOwner != "" && len(ch.Key) == 1+2*sdk.AddrLen && bytes.Equal(ch.Key[1:1+sdk.AddrLen], mustAddr(sc.attOwner).Bytes()) &&
			bytes.Equal(ch.Key[1+sdk.AddrLen:], mustAddr(sc.attAud).Bytes()) {
			return true, ""
		}
		return false, fmt.Sprintf("attestation record %x", ch.Key)
	case "cert":
		if sc.certOwn != "" && len(ch.Key) >= 1+sdk.AddrLen && bytes.Equal(ch.Key[1:1+sdk.AddrLen], mustAddr(sc.certOwn).Bytes()) {
			if sc.certSer != nil && (sc.certSer.Sign() < 0 || !bytes.Equal(ch.Key[1+sdk.AddrLen:], sc.certSer.Bytes())) {
				return false, fmt.Sprintf("certificate serial %s of the same owner (the message names serial %s)", new(big.Int).SetBytes(ch.Key[1+sdk.AddrLen:]), sc.certSer)
			}
			return true, ""
		}
		return false, fmt.Sprintf("certificate record %x", ch.Key)
	}
	return false, "unknown store " + ch.Store
}

func (cs *checkerSet) c06Tx(c *TxCtx) *core.Violation {
	r := cs.r
	party, sc := assignedParty(c.Op.Msg)
	if a, err := sdk.AccAddressFromBech32(party); err == nil {
		party = a.String() // canonical spelling of the account
	}
	// (a) the message asks for exactly the assigned party's signature
	signers := c.Op.Msg.GetSigners()
	if len(signers) != 1 || signers[0].String() != party {
		return r.Flag("C06/required-signer", "%s requires signatures of %v, the protocol assigns it to %s", c.Op.Kind, signers, party)
	}
	if c.Op.Wrong {
		r.Count("probe:wrong-signer-" + c.Op.Kind)
		if c.OK {
			return r.Flag("C06/wrong-signer-accepted", "%s signed by %s (assigned party %s) was accepted", c.Op.Kind, c.Op.Signer.Name, c.W.ActorByAddr(party).Name)
		}
	}
	if c.Dup && c.OK {
		return r.Flag("C06/replayed-tx-accepted", "a replayed signed %s was accepted a second time", c.Op.Kind)
	}
	if !c.OK {
		if e := noEffect(c); e != "" {
			return r.Flag("C06/rejected-with-effect", "rejected %s had an effect: %s", c.Op.Kind, e)
		}
		return nil
	}
	// (b) a successful transaction changes only records of what it names
	for _, ch := range DiffRaw(c.Before, c.After) {
		if sc.none {
			return r.Flag("C06/touches-foreign-record", "%s changed %s-store key %x", c.Op.Kind, ch.Store, ch.Key)
		}
		if ok, what := inScope(ch, sc); !ok {
			return r.Flag("C06/touches-foreign-record", "%s changed a record it does not name: %s", describeOp(c.W, c.Op), what)
		}
	}
	// a message that names one group (or an order, bid or lease of it) leaves the other groups of the
	// deployment alone - unless the transaction ended the whole deployment (escrow exhausted)
	if sc.hasDep && sc.gseq != 0 {
		dk := fmt.Sprintf("%s/%d", sc.depOwner, sc.dseq)
		depEnded := c.Before.Deployments[dk].State != c.After.Deployments[dk].State
		if !depEnded {
			for _, ch := range DiffRaw(c.Before, c.After) {
				var g uint32
				var what string
				switch ch.Store {
				case "market":
					if _, _, rest, ok := parseDepKey(ch.Key, 2); ok && len(rest) >= 4 {
						g, what = binary.BigEndian.Uint32(rest), fmt.Sprintf("market record (type %d)", ch.Key[0])
					}
				case "deployment":
					if ch.Key[0] == 0x02 {
						if _, _, rest, ok := parseDepKey(ch.Key, 1); ok && len(rest) >= 4 {
							g, what = binary.BigEndian.Uint32(rest), "group record"
						}
					}
				case "escrow":
					parts := strings.Split(string(ch.Key[1:]), "/")
					if len(parts) >= 5 && parts[1] == "bid" {
						if v, err := strconv.ParseUint(parts[4], 10, 32); err == nil {
							g, what = uint32(v), "bid deposit account"
						}
					}
				}
				if g != 0 && g != sc.gseq {
					return r.Flag("C06/touches-other-group", "%s names group %d but changed a %s of group %d of the same (still active) deployment", describeOp(c.W, c.Op), sc.gseq, what, g)
				}
			}
		}
	}
	// a provider's authority over the tenant's order and group derives from its live bid: a close-bid or
	// withdraw naming a bid that has already ended (closed, lost) changes nothing
	if prov := providerOfAction(c.Op.Msg); prov != "" {
		var bidID mtypes.BidID
		switch m := c.Op.Msg.(type) {
		case *mtypes.MsgCloseBid:
			bidID = m.BidID
		case *mtypes.MsgWithdrawLease:
			bidID = mtypes.BidID(m.LeaseID)
		}
		if b, ok := c.Before.Bids[bid(bidID)]; ok && b.State != mtypes.BidOpen && b.State != mtypes.BidActive {
			if chs := DiffRaw(c.Before, c.After); len(chs) > 0 {
				return r.Flag("C06/acts-through-ended-bid", "%s succeeded although the bid it names was already %s, and changed %d records (first: %s-store key type %d)",
					describeOp(c.W, c.Op), b.State, len(chs), chs[0].Store, chs[0].Key[0])
			}
		}
	}
	// a bid is the provider's standing offer; once it has ended (withdrawn, lost) nobody else's signature
	// brings it back: a tenant's create-lease naming such a bid changes nothing
	if m, ok := c.Op.Msg.(*mtypes.MsgCreateLease); ok {
		if b, had := c.Before.Bids[bid(m.BidID)]; had && b.State != mtypes.BidOpen {
			if chs := DiffRaw(c.Before, c.After); len(chs) > 0 {
				return r.Flag("C06/acts-through-ended-bid", "%s succeeded although the provider's bid it names was %s, and changed %d records", describeOp(c.W, c.Op), b.State, len(chs))
			}
		}
	}
	// an action the protocol assigns to a provider (close bid, withdraw) does not change the state of
	// another provider's bid, lease, deposit account or payment (settlement may credit every payment of
	// the account: balances are not compared) - again unless it ended the whole deployment
	if prov := providerOfAction(c.Op.Msg); prov != "" {
		dk := fmt.Sprintf("%s/%d", sc.depOwner, sc.dseq)
		if c.Before.Deployments[dk].State == c.After.Deployments[dk].State {
			foreign := func(kind, key, owner string, dseq uint64, p, before, after string) *core.Violation {
				if owner != sc.depOwner || dseq != sc.dseq || p == prov || before == after {
					return nil
				}
				return r.Flag("C06/touches-other-provider", "%s is an action of provider %s but moved %s %s of provider %s from %s to %s (deployment still active)",
					describeOp(c.W, c.Op), nameOf(c.W, prov), kind, key, nameOf(c.W, p), before, after)
			}
			for _, k := range keysOf(c.Before.Bids) {
				x, y := c.Before.Bids[k], c.After.Bids[k]
				if v := foreign("bid", k, x.BidID.Owner, x.BidID.DSeq, x.BidID.Provider, x.State.String(), y.State.String()); v != nil {
					return v
				}
			}
			for _, k := range keysOf(c.Before.Leases) {
				x, y := c.Before.Leases[k], c.After.Leases[k]
				if v := foreign("lease", k, x.LeaseID.Owner, x.LeaseID.DSeq, x.LeaseID.Provider, x.State.String(), y.State.String()); v != nil {
					return v
				}
			}
			for _, k := range keysOf(c.Before.Payments) {
				x, y := c.Before.Payments[k], c.After.Payments[k]
				parts := strings.Split(k, "/") // deployment/owner/dseq/gseq/oseq/provider
				if len(parts) == 6 && parts[0] == "deployment" {
					d, _ := strconv.ParseUint(parts[2], 10, 64)
					if v := foreign("payment", k, parts[1], d, parts[5], x.State.String(), y.State.String()); v != nil {
						return v
					}
				}
			}
			for _, k := range keysOf(c.Before.Accounts) {
				x, y := c.Before.Accounts[k], c.After.Accounts[k]
				parts := strings.Split(k, "/") // bid/owner/dseq/gseq/oseq/provider
				if len(parts) == 6 && parts[0] == "bid" {
					d, _ := strconv.ParseUint(parts[2], 10, 64)
					if v := foreign("bid deposit account", k, parts[1], d, parts[5], x.State.String(), y.State.String()); v != nil {
						return v
					}
				}
			}
		}
	}
	// ... and reduces only its signer's balance
	for _, a := range c.W.Actors {
		if c.After.Bank[a.Bech].LT(c.Before.Bank[a.Bech]) && a.Bech != party {
			return r.Flag("C06/reduces-foreign-balance", "%s by %s reduced the balance of %s by %s", c.Op.Kind, c.W.ActorByAddr(party).Name, a.Name,
				c.Before.Bank[a.Bech].Sub(c.After.Bank[a.Bech]))
		}
	}
	return nil
}

// ---------------------------------------------------------------- C08

func attrSet(a types.Attributes) map[string]bool {
	m := map[string]bool{}
	for _, x := range a {
		m[x.Key+"\x00"+x.Value] = true
	}
	return m
}

func covers(have map[string]bool, req types.Attributes) bool {
	for _, x := range req {
		if !have[x.Key+"\x00"+x.Value] {
			return false
		}
	}
	return true
}

// bidAdmissible is the statement of C08 as a predicate over the pre-state (sets, no shared code).
func (cs *checkerSet) bidAdmissible(w *World, s *Snap, m *mtypes.MsgCreateBid) string {
	o, ok := s.Orders[oid(m.Order)]
	if !ok {
		return "order does not exist"
	}
	if o.State != mtypes.OrderOpen {
		return "order is " + o.State.String()
	}
	if _, ok := s.Providers[m.Provider]; !ok {
		return "provider is not registered"
	}
	// the provider's attributes are what it last declared (history), not whatever the store holds
	provAttrs, ok := cs.declared[m.Provider]
	if !ok {
		return "provider never declared itself in this history"
	}
	if pa, err := sdk.AccAddressFromBech32(m.Provider); err != nil {
		return "provider address does not decode"
	} else if oa, err := sdk.AccAddressFromBech32(m.Order.Owner); err != nil || pa.Equals(oa) {
		return "provider is the tenant" // the same account, however its address is spelled
	}
	max := orderMaxPrice(o.Spec)
	if m.Price.Denom != max.Denom || m.Price.Amount.IsNil() || !m.Price.Amount.IsPositive() {
		return fmt.Sprintf("price %s is not a valid non-zero price in %s", m.Price, max.Denom)
	}
	if m.Price.Amount.GT(max.Amount) {
		return fmt.Sprintf("price %s above order maximum %s", m.Price, max)
	}
	if m.Deposit.Denom != Denom || m.Deposit.Amount.LT(sdk.NewInt(w.Knobs.BidMinDeposit)) {
		return fmt.Sprintf("deposit %s below minimum %d", m.Deposit, w.Knobs.BidMinDeposit)
	}
	req := o.Spec.Requirements
	if len(req.SignedBy.AllOf) == 0 && len(req.SignedBy.AnyOf) == 0 {
		if !covers(attrSet(provAttrs), req.Attributes) {
			return fmt.Sprintf("own attributes %v do not cover %v", provAttrs, req.Attributes)
		}
		return ""
	}
	// an auditor's attestation is what it signed and did not withdraw (history): a later signature of a
	// key replaces the earlier value
	attested := func(auditor string) (map[string]bool, bool) {
		rec, ok := cs.att[m.Provider+"|"+auditor]
		if !ok {
			return nil, false
		}
		set := map[string]bool{}
		for k, v := range rec {
			set[k+"\x00"+v] = true
		}
		return set, true
	}
	for _, a := range req.SignedBy.AllOf {
		set, ok := attested(a)
		if !ok || !covers(set, req.Attributes) {
			return fmt.Sprintf("all-of auditor %s has not signed %v", a, req.Attributes)
		}
	}
	if len(req.SignedBy.AnyOf) > 0 {
		found := false
		for _, a := range req.SignedBy.AnyOf {
			if set, ok := attested(a); ok && covers(set, req.Attributes) {
				found = true
			}
		}
		if !found {
			return fmt.Sprintf("no any-of auditor has signed %v", req.Attributes)
		}
	}
	return ""
}

func (cs *checkerSet) c08Tx(c *TxCtx) *core.Violation {
	r := cs.r
	switch m := c.Op.Msg.(type) {
	case *mtypes.MsgCreateBid:
		why := cs.bidAdmissible(c.W, c.Before, m)
		if o, ok := c.Before.Orders[oid(m.Order)]; ok {
			req := o.Spec.Requirements
			switch {
			case len(req.SignedBy.AllOf) > 0 && len(req.SignedBy.AnyOf) > 0:
				r.Count("probe:bid-on-allof+anyof-order")
			case len(req.SignedBy.AllOf) > 0:
				r.Count("probe:bid-on-allof-order")
			case len(req.SignedBy.AnyOf) > 0:
				r.Count("probe:bid-on-anyof-order")
			}
			if c.OK && (len(req.SignedBy.AllOf) > 0 || len(req.SignedBy.AnyOf) > 0) {
				r.Count("probe:audited-bid-accepted")
			}
		}
		if c.OK && why != "" {
			return r.Flag("C08/inadmissible-bid-accepted", "%s was accepted although %s", describeOp(c.W, c.Op), why)
		}
		if !c.OK && why != "" {
			r.Count("probe:inadmissible-bid-rejected")
		}
	case *atypes.MsgSignProviderAttributes:
		if c.OK {
			k := m.Owner + "|" + m.Auditor
			if cs.att[k] == nil {
				cs.att[k] = map[string]string{}
			}
			for _, a := range m.Attributes {
				cs.att[k][a.Key] = a.Value
			}
		}
	case *atypes.MsgDeleteProviderAttributes:
		if c.OK {
			k := m.Owner + "|" + m.Auditor
			if len(m.Keys) == 0 {
				delete(cs.att, k)
			} else {
				for _, key := range m.Keys {
					delete(cs.att[k], key)
				}
				if len(cs.att[k]) == 0 {
					delete(cs.att, k)
				}
			}
		}
	case *ptypes.MsgCreateProvider:
		if c.OK {
			cs.declared[m.Owner] = append(types.Attributes{}, m.Attributes...)
		}
	case *ptypes.MsgUpdateProvider:
		if !c.OK {
			return nil
		}
		defer func() { cs.declared[m.Owner] = append(types.Attributes{}, m.Attributes...) }()
		newAttrs := attrSet(m.Attributes)
		for _, k := range keysOf(c.Before.Leases) {
			l := c.Before.Leases[k]
			if l.State != mtypes.LeaseActive || l.LeaseID.Provider != m.Owner {
				continue
			}
			r.Count("probe:update-provider-with-active-lease")
			o, ok := c.Before.Orders[oid(l.LeaseID.OrderID())]
			if !ok {
				continue
			}
			if !covers(newAttrs, o.Spec.Requirements.Attributes) {
				return r.Flag("C08/provider-dropped-leased-attributes", "provider %s changed its attributes to %v which no longer cover %v required by its active lease %s",
					c.W.ActorByAddr(m.Owner).Name, m.Attributes, o.Spec.Requirements.Attributes, k)
			}
		}
	}
	return nil
}
