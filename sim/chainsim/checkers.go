package chainsim

import (
	"github.com/ovrclk/akash/types"
	"bytes"
	"encoding/hex"
	"fmt"

	banktypes "github.com/cosmos/cosmos-sdk/x/bank/types"

	atypes "github.com/ovrclk/akash/x/audit/types"
	ctypes "github.com/ovrclk/akash/x/cert/types"
	dtypes "github.com/ovrclk/akash/x/deployment/types"
	mtypes "github.com/ovrclk/akash/x/market/types"
	ptypes "github.com/ovrclk/akash/x/provider/types"

	"verifsim/core"
)

type checkerSet struct {
	prop string
	r    *core.Run
	w    *World
	c17  *certModel
	// C08: what auditors signed and providers declared, kept from the successful transactions alone
	// (owner|auditor -> key -> value; owner -> declared attributes)
	c17Touched [][2]string // (owner, serial) pairs named by certificate transactions of the block in progress
	att      map[string]map[string]string
	declared map[string]types.Attributes
	// C07: per-transaction result digests and per-block app hashes of replica 0
	txHashes  []string
	appHashes []string
	dbDump    [][2][]byte
	dbDumpAt  int
}

func newChecker(prop string, w *World) *checkerSet {
	return &checkerSet{prop: prop, r: w.R, w: w, c17: newCertModel(), att: map[string]map[string]string{}, declared: map[string]types.Attributes{}}
}

func (cs *checkerSet) AfterTx(c *TxCtx) *core.Violation {
	// A transaction whose second message fails must leave no trace of its first message.  Every
	// property's state invariants are evaluated on the resulting state anyway; the properties that
	// speak about rejected transactions (C01, C06, C19) check "no effect" explicitly below.
	switch cs.prop {
	case "C01":
		return cs.c01Tx(c)
	case "C02":
		return cs.c02Tx(c)
	case "C03":
		return cs.c03Tx(c)
	case "C04":
		return cs.c04Tx(c)
	case "C05":
		return cs.c05Tx(c)
	case "C06":
		return cs.c06Tx(c)
	case "C07":
		return cs.c07Tx(c)
	case "C08":
		return cs.c08Tx(c)
	case "C16":
		return cs.c16Tx(c)
	case "C17":
		return cs.c17Tx(c)
	case "C19":
		return cs.c19Tx(c)
	}
	panic("no checker for " + cs.prop)
}

// Quiescent: state-only invariants on a state reached without a transaction.
func (cs *checkerSet) Quiescent(w *World, s *Snap, l *Ledger, why string) *core.Violation {
	switch cs.prop {
	case "C01":
		return cs.c01State(w, s, why)
	case "C03":
		return cs.c03State(w, s, why)
	case "C04":
		return cs.c04State(w, s, why)
	case "C05":
		return cs.c05State(w, s, why)
	case "C19":
		return cs.c19State(w, s, why)
	case "C17":
		if why == "restart" {
			// the state right after a restart is the last commit, the history model already contains the
			// interrupted block: compared again after the block was re-delivered
			return nil
		}
		return cs.c17State(w, s, why)
	}
	return nil
}

func (cs *checkerSet) blockEnd(w *World, hashes [][]byte) *core.Violation {
	if cs.prop == "C07" {
		cs.appHashes = append(cs.appHashes, hex.EncodeToString(hashes[0]))
		// sometimes remember the node's disk at this block boundary: the cross-process check may then
		// restart a fresh process from it instead of from genesis
		if cs.dbDump == nil && cs.r.Bool(6, "c07.dumpdisk") {
			cs.dumpDisk(w)
		}
	}
	if cs.prop == "C17" {
		// after the commit: what the application itself answers (its own keeper instance, with whatever
		// it keeps in memory) for the pairs this block's transactions named - accepted or rejected - and
		// for one drawn listing
		touched := cs.c17Touched
		cs.c17Touched = nil
		if len(touched) > 3 {
			touched = touched[len(touched)-3:]
		}
		for _, t := range touched {
			if v := cs.c17QueryVia(w, true, t[0], t[1]); v != nil {
				return v
			}
		}
		if len(touched) > 0 || cs.r.Bool(10, "c17.abci-listing") {
			if v := cs.c17QueryVia(w, true, "", ""); v != nil {
				return v
			}
		}
	}
	for i := 1; i < len(hashes); i++ {
		if !bytes.Equal(hashes[0], hashes[i]) {
			if cs.prop == "C07" {
				return cs.r.Flag("C07/apphash-diverged", "height %d: replica 0 app hash %X, replica %d app hash %X", w.Height, hashes[0], i, hashes[i])
			}
		}
	}
	return nil
}

func (cs *checkerSet) exportInvalid(w *World, module string, err error) *core.Violation {
	if cs.prop == "C03" && module == "escrow" {
		return cs.r.Flag("C03/export-validate-genesis", "exported escrow genesis fails ValidateGenesis: %v", err)
	}
	return nil
}

// importChanged: a module's exported state differs after an import/export round trip.  For the escrow
// module that is a change of what tenants and providers are owed (balances, states, the settlement
// clock) made by a restart: C01/C02/C03/C05 say it must not happen under any history.
func (cs *checkerSet) importChanged(w *World, module, diff string) *core.Violation {
	if module == "escrow" {
		switch cs.prop {
		case "C01", "C02", "C03", "C05":
			return cs.r.Flag(cs.prop+"/escrow-state-changed-by-restart-from-export", "escrow state exported at height %d is not what a chain booted from that export holds: %s", w.Height, diff)
		}
	}
	if module == "cert" && cs.prop == "C17" {
		// "its state only ever moves from valid to revoked ... and it is never removed" - also across a restart
		return cs.r.Flag("C17/certificates-changed-by-restart-from-export", "certificate state exported at height %d is not what a chain booted from that export holds: %s", w.Height, diff)
	}
	return nil
}

func describeOp(w *World, op *Op) string {
	name := func(b string) string {
		if a := w.ActorByAddr(b); a != nil {
			return a.Name
		}
		return b
	}
	switch m := op.Msg.(type) {
	case *dtypes.MsgCreateDeployment:
		return fmt.Sprintf("CreateDeployment(%s/%d groups=%d deposit=%s)", name(m.ID.Owner), m.ID.DSeq, len(m.Groups), m.Deposit)
	case *dtypes.MsgDepositDeployment:
		return fmt.Sprintf("DepositDeployment(%s/%d %s)", name(m.ID.Owner), m.ID.DSeq, m.Amount)
	case *dtypes.MsgUpdateDeployment:
		return fmt.Sprintf("UpdateDeployment(%s/%d v=%x)", name(m.ID.Owner), m.ID.DSeq, m.Version[:4])
	case *dtypes.MsgCloseDeployment:
		return fmt.Sprintf("CloseDeployment(%s/%d)", name(m.ID.Owner), m.ID.DSeq)
	case *dtypes.MsgCloseGroup:
		return fmt.Sprintf("CloseGroup(%s/%d/%d)", name(m.ID.Owner), m.ID.DSeq, m.ID.GSeq)
	case *dtypes.MsgPauseGroup:
		return fmt.Sprintf("PauseGroup(%s/%d/%d)", name(m.ID.Owner), m.ID.DSeq, m.ID.GSeq)
	case *dtypes.MsgStartGroup:
		return fmt.Sprintf("StartGroup(%s/%d/%d)", name(m.ID.Owner), m.ID.DSeq, m.ID.GSeq)
	case *mtypes.MsgCreateBid:
		return fmt.Sprintf("CreateBid(%s/%d/%d/%d by %s price=%s deposit=%s)", name(m.Order.Owner), m.Order.DSeq, m.Order.GSeq, m.Order.OSeq, name(m.Provider), m.Price, m.Deposit)
	case *mtypes.MsgCloseBid:
		return fmt.Sprintf("CloseBid(%s/%d/%d/%d/%s)", name(m.BidID.Owner), m.BidID.DSeq, m.BidID.GSeq, m.BidID.OSeq, name(m.BidID.Provider))
	case *mtypes.MsgCreateLease:
		return fmt.Sprintf("CreateLease(%s/%d/%d/%d/%s)", name(m.BidID.Owner), m.BidID.DSeq, m.BidID.GSeq, m.BidID.OSeq, name(m.BidID.Provider))
	case *mtypes.MsgWithdrawLease:
		return fmt.Sprintf("WithdrawLease(%s/%d/%d/%d/%s)", name(m.LeaseID.Owner), m.LeaseID.DSeq, m.LeaseID.GSeq, m.LeaseID.OSeq, name(m.LeaseID.Provider))
	case *mtypes.MsgCloseLease:
		return fmt.Sprintf("CloseLease(%s/%d/%d/%d/%s)", name(m.LeaseID.Owner), m.LeaseID.DSeq, m.LeaseID.GSeq, m.LeaseID.OSeq, name(m.LeaseID.Provider))
	case *ptypes.MsgCreateProvider:
		return fmt.Sprintf("CreateProvider(%s attrs=%v)", name(m.Owner), m.Attributes)
	case *ptypes.MsgUpdateProvider:
		return fmt.Sprintf("UpdateProvider(%s attrs=%v)", name(m.Owner), m.Attributes)
	case *atypes.MsgSignProviderAttributes:
		return fmt.Sprintf("SignProviderAttributes(auditor=%s provider=%s attrs=%v)", name(m.Auditor), name(m.Owner), m.Attributes)
	case *atypes.MsgDeleteProviderAttributes:
		return fmt.Sprintf("DeleteProviderAttributes(auditor=%s provider=%s keys=%v)", name(m.Auditor), name(m.Owner), m.Keys)
	case *banktypes.MsgSend:
		return fmt.Sprintf("BankSend(%s -> %s %s)", name(m.FromAddress), name(m.ToAddress), m.Amount)
	case *ctypes.MsgCreateCertificate:
		return fmt.Sprintf("CreateCertificate(owner=%s %s)", name(m.Owner), op.Boundary)
	case *ctypes.MsgRevokeCertificate:
		return fmt.Sprintf("RevokeCertificate(owner=%s serial=%s)", name(m.ID.Owner), m.ID.Serial)
	}
	return op.Kind
}

func requiredProbes(property string) []string {
	switch property {
	case "C01":
		return []string{"fault:out-of-gas-abort", "fault:failing-second-message", "fault:crash-before-commit", "fault:export-import", "fault:duplicate-tx", "fault:wrong-signer", "ok:WithdrawLease", "ok:CloseDeployment"}
	case "C02":
		return []string{"probe:overdraft", "probe:overdraft-multi-payment", "probe:withdraw-settles"}
	case "C03":
		return []string{"probe:payment-close-zero-elapsed", "probe:payment-close-zero-accrued", "probe:account-close-zero-elapsed", "fault:export-import"}
	case "C04":
		return []string{"probe:group-insufficient-funds", "probe:group-started", "probe:group-paused"}
	case "C05":
		return []string{"probe:bid-ended", "probe:deployment-ended"}
	case "C06":
		return []string{"fault:wrong-signer", "fault:duplicate-tx", "probe:wrong-signer-CreateLease", "probe:wrong-signer-CloseBid", "probe:wrong-signer-CreateCertificate"}
	case "C07":
		return []string{"probe:attestation-merge-2+", "probe:attestation-partial-delete", "probe:cross-process-reexecutions", "fault:crash-before-commit"}
	case "C08":
		return []string{"probe:bid-on-allof-order", "probe:bid-on-anyof-order", "probe:audited-bid-accepted", "probe:inadmissible-bid-rejected", "probe:update-provider-with-active-lease"}
	case "C16":
		return []string{"probe:akash-events", "probe:multi-event-tx", "probe:indirect-close-via-withdraw"}
	case "C17":
		return []string{"probe:cert-registered", "probe:cert-revoked", "probe:cert-serial-0", "probe:cert-serial-wide", "probe:cert-list-multipage"}
	case "C19":
		return []string{"probe:boundary-valid", "probe:boundary-invalid", "probe:boundary-accepted", "fault:out-of-gas-abort"}
	}
	return nil
}
