package chainsim

import (
	"bytes"
	"fmt"
	"math/big"
	"sort"
	"strings"

	sdk "github.com/cosmos/cosmos-sdk/types"
	banktypes "github.com/cosmos/cosmos-sdk/x/bank/types"

	dtypes "github.com/ovrclk/akash/x/deployment/types"
	"github.com/ovrclk/akash/x/escrow"
	etypes "github.com/ovrclk/akash/x/escrow/types"
	mtypes "github.com/ovrclk/akash/x/market/types"

	"verifsim/core"
)

func bi(x sdk.Int) *big.Int {
	if x.IsNil() {
		return new(big.Int)
	}
	return x.BigInt()
}

func mustAddr(b string) sdk.AccAddress {
	a, err := sdk.AccAddressFromBech32(b)
	if err != nil {
		panic(err)
	}
	return a
}

func paid(p etypes.Payment) *big.Int {
	return new(big.Int).Add(bi(p.Balance.Amount), bi(p.Withdrawn.Amount))
}

// moneyFlows derives, from the escrow record deltas of one transaction and the ledger's knowledge of
// who deposited / who is payee, the bank delta every address should see.
func moneyFlows(c *TxCtx) (expected map[string]*big.Int, problems []string) {
	expected = map[string]*big.Int{}
	add := func(who string, v *big.Int) {
		if cur, ok := expected[who]; ok {
			cur.Add(cur, v)
		} else {
			expected[who] = new(big.Int).Set(v)
		}
	}
	deps := depositsOf(c)
	// payments: payout = increase of Withdrawn, goes to the payee of the lease
	perAcctCredit := map[string]*big.Int{}
	for _, k := range keysOf(c.After.Payments) {
		pa := c.After.Payments[k]
		pb, had := c.Before.Payments[k]
		bw, bp := new(big.Int), new(big.Int)
		if had {
			bw, bp = bi(pb.Withdrawn.Amount), paid(pb)
		}
		dW := new(big.Int).Sub(bi(pa.Withdrawn.Amount), bw)
		dP := new(big.Int).Sub(paid(pa), bp)
		if dW.Sign() < 0 || dP.Sign() < 0 {
			problems = append(problems, fmt.Sprintf("payment %s: withdrawn/credited amount decreased", k))
		}
		ak := acctKey(pa.AccountID)
		if perAcctCredit[ak] == nil {
			perAcctCredit[ak] = new(big.Int)
		}
		perAcctCredit[ak].Add(perAcctCredit[ak], dP)
		if dW.Sign() != 0 {
			lp := c.L.Pays[k]
			if lp == nil {
				problems = append(problems, fmt.Sprintf("payment %s paid out but no lease was ever created for it", k))
				continue
			}
			add(lp.Payee, dW)
		}
	}
	for _, k := range keysOf(c.Before.Payments) {
		if _, ok := c.After.Payments[k]; !ok {
			problems = append(problems, fmt.Sprintf("payment record %s disappeared", k))
		}
	}
	for _, k := range keysOf(c.After.Accounts) {
		aa := c.After.Accounts[k]
		ab, had := c.Before.Accounts[k]
		bb, bt := new(big.Int), new(big.Int)
		if had {
			bb, bt = bi(ab.Balance.Amount), bi(ab.Transferred.Amount)
		}
		dep := deps[k]
		if dep == nil {
			dep = new(big.Int)
		}
		dT := new(big.Int).Sub(bi(aa.Transferred.Amount), bt)
		cr := perAcctCredit[k]
		if cr == nil {
			cr = new(big.Int)
		}
		if dT.Cmp(cr) != 0 {
			problems = append(problems, fmt.Sprintf("account %s: transferred changed by %s but its payees were credited %s", k, dT, cr))
		}
		out := new(big.Int).Add(bb, dep)
		out.Sub(out, dT)
		out.Sub(out, bi(aa.Balance.Amount))
		la := c.L.Accts[k]
		if la == nil {
			problems = append(problems, fmt.Sprintf("escrow account %s exists but no deposit message ever created it", k))
			continue
		}
		if dep.Sign() != 0 {
			add(la.Depositor, new(big.Int).Neg(dep))
		}
		if out.Sign() < 0 {
			problems = append(problems, fmt.Sprintf("account %s: balance grew by %s without a deposit", k, new(big.Int).Neg(out)))
		} else if out.Sign() > 0 {
			if aa.State == etypes.AccountOpen {
				problems = append(problems, fmt.Sprintf("account %s: %s left the open account other than as payment", k, out))
			}
			add(la.Depositor, out)
			la.Refunded.Add(la.Refunded, out)
		}
	}
	for _, k := range keysOf(c.Before.Accounts) {
		if _, ok := c.After.Accounts[k]; !ok {
			problems = append(problems, fmt.Sprintf("account record %s disappeared", k))
		}
	}
	for who, v := range sendsOf(c) {
		add(who, v)
	}
	return expected, problems
}

func bankDelta(c *TxCtx, who string) *big.Int {
	a, b := c.After.Bank[who], c.Before.Bank[who]
	return new(big.Int).Sub(bi(a), bi(b))
}

func sumRecorded(s *Snap) *big.Int {
	t := new(big.Int)
	for _, a := range s.Accounts {
		t.Add(t, bi(a.Balance.Amount))
	}
	for _, p := range s.Payments {
		t.Add(t, bi(p.Balance.Amount))
	}
	return t
}

// ---------------------------------------------------------------- C01

func (cs *checkerSet) c01State(w *World, s *Snap, why string) *core.Violation {
	rec := sumRecorded(s)
	mod := bi(s.Bank[w.EscrowMA])
	if rec.Cmp(mod) != 0 {
		return cs.r.Flag("C01/module-balance-ne-recorded", "%s: escrow module holds %s but accounts+payments record %s", why, mod, rec)
	}
	return nil
}

func noEffect(c *TxCtx) string {
	if d := DiffRaw(c.Before, c.After); len(d) > 0 {
		return fmt.Sprintf("store %s key %x changed", d[0].Store, d[0].Key)
	}
	for _, k := range keysOf(c.After.Bank) {
		if !c.After.Bank[k].Equal(c.Before.Bank[k]) {
			return fmt.Sprintf("balance of %s changed %s -> %s", k, c.Before.Bank[k], c.After.Bank[k])
		}
	}
	return ""
}

func (cs *checkerSet) c01Tx(c *TxCtx) *core.Violation {
	r := cs.r
	if v := cs.c01State(c.W, c.After, "after tx"); v != nil {
		return v
	}
	if !c.OK {
		if e := noEffect(c); e != "" {
			return r.Flag("C01/rejected-tx-had-effect", "rejected %s (code %d) had an effect: %s", c.Op.Kind, c.Res.Code, e)
		}
		return nil
	}
	if m, ok := c.Op.Msg.(*banktypes.MsgSend); ok && m.ToAddress == c.W.EscrowMA {
		return r.Flag("C01/external-send-to-module-accepted", "MsgSend of %s to the escrow module account was accepted", m.Amount)
	}
	exp, problems := moneyFlows(c)
	if len(problems) > 0 {
		return r.Flag("C01/flow-"+classOf(problems[0]), "%s", strings.Join(problems, "; "))
	}
	sum := new(big.Int)
	for _, a := range c.W.Actors {
		want := exp[a.Bech]
		if want == nil {
			want = new(big.Int)
		}
		got := bankDelta(c, a.Bech)
		sum.Add(sum, got)
		if got.Cmp(want) != 0 {
			return r.Flag("C01/actor-bank-delta", "%s by %s: balance of %s (%s) changed by %s, escrow records and deposits imply %s",
				c.Op.Kind, c.Op.Signer.Name, a.Name, a.Role, got, want)
		}
	}
	for who := range exp {
		if c.W.ActorByAddr(who) == nil && who != c.W.EscrowMA {
			return r.Flag("C01/flow-to-unknown", "money flows to %s which is not a party", who)
		}
	}
	mod := bankDelta(c, c.W.EscrowMA)
	if new(big.Int).Add(mod, sum).Sign() != 0 {
		return r.Flag("C01/coins-created-or-destroyed", "%s: actors' balances changed by %s in total, module by %s", c.Op.Kind, sum, mod)
	}
	// lifetime identity per account
	for _, k := range keysOf(c.After.Accounts) {
		a := c.After.Accounts[k]
		la := c.L.Accts[k]
		if la == nil {
			continue
		}
		tot := new(big.Int).Add(bi(a.Balance.Amount), bi(a.Transferred.Amount))
		tot.Add(tot, la.Refunded)
		if tot.Cmp(la.Deposited) != 0 {
			return r.Flag("C01/account-lifetime", "account %s: balance+transferred+refunded=%s but %s was deposited", k, tot, la.Deposited)
		}
	}
	return nil
}

func classOf(problem string) string {
	switch {
	case strings.Contains(problem, "disappeared"):
		return "record-disappeared"
	case strings.Contains(problem, "no deposit message"):
		return "account-without-deposit"
	case strings.Contains(problem, "no lease was ever"):
		return "payout-without-lease"
	case strings.Contains(problem, "transferred changed"):
		return "transferred-ne-credited"
	case strings.Contains(problem, "grew"):
		return "balance-grew"
	case strings.Contains(problem, "left the open account"):
		return "leak-from-open-account"
	case strings.Contains(problem, "decreased"):
		return "credited-decreased"
	}
	return "other"
}

// ---------------------------------------------------------------- C02

func (cs *checkerSet) c02Tx(c *TxCtx) *core.Violation {
	r := cs.r
	h := c.Height
	s := c.After
	if c.OK {
		// what the records say was paid out (withdrawn) is what the payees' bank balances received
		if exp, problems := moneyFlows(c); len(problems) == 0 {
			for _, a := range c.W.Actors {
				want := exp[a.Bech]
				if want == nil {
					want = new(big.Int)
				}
				if got := bankDelta(c, a.Bech); got.Cmp(want) != 0 {
					return r.Flag("C02/receipt-ne-recorded-payout", "%s: %s's bank balance changed by %s, the escrow records of this transaction (withdrawals, refunds, deposits) imply %s",
						c.Op.Kind, a.Name, got, want)
				}
			}
		}
	}
	perAcct := map[string]*big.Int{}
	for _, k := range keysOf(s.Payments) {
		p := s.Payments[k]
		ak := acctKey(p.AccountID)
		if perAcct[ak] == nil {
			perAcct[ak] = new(big.Int)
		}
		perAcct[ak].Add(perAcct[ak], paid(p))
		lp := c.L.Pays[k]
		if lp == nil {
			return r.Flag("C02/payment-without-lease", "payment %s exists but no create-lease succeeded for it", k)
		}
		if bi(p.Rate.Amount).Cmp(lp.Rate) != 0 {
			return r.Flag("C02/rate-ne-bid-price", "payment %s: rate %s but the bid was priced %s", k, p.Rate.Amount, lp.Rate)
		}
		a, ok := s.Accounts[ak]
		if !ok {
			return r.Flag("C02/payment-without-account", "payment %s has no account", k)
		}
		end := h
		if lp.EndedAt != 0 {
			end = lp.EndedAt
		}
		open := big.NewInt(end - lp.OpenedAt)
		cap := new(big.Int).Mul(lp.Rate, open)
		if paid(p).Cmp(cap) > 0 {
			return r.Flag("C02/overcharge", "payment %s: payee was credited %s > rate %s x %s blocks open (opened h=%d, lease ended h=%d, now h=%d)",
				k, paid(p), lp.Rate, open, lp.OpenedAt, lp.EndedAt, h)
		}
		if a.State != etypes.AccountOverdrawn && p.State != etypes.PaymentOverdrawn {
			var want *big.Int
			if lp.EndedAt == 0 {
				want = new(big.Int).Mul(lp.Rate, big.NewInt(a.SettledAt-lp.OpenedAt))
			} else {
				want = cap
			}
			if paid(p).Cmp(want) != 0 {
				return r.Flag("C02/inexact-accrual", "payment %s: credited %s, exact metering gives %s (rate %s, opened h=%d, settled h=%d, ended h=%d)",
					k, paid(p), want, lp.Rate, lp.OpenedAt, a.SettledAt, lp.EndedAt)
			}
		}
	}
	for _, k := range keysOf(s.Accounts) {
		a := s.Accounts[k]
		tr := bi(a.Transferred.Amount)
		pc := perAcct[k]
		if pc == nil {
			pc = new(big.Int)
		}
		if tr.Cmp(pc) != 0 {
			return r.Flag("C02/transferred-ne-credited", "account %s: transferred %s but payees hold/received %s", k, tr, pc)
		}
		la := c.L.Accts[k]
		if la == nil {
			return r.Flag("C02/account-without-deposit", "account %s was never created by a deposit", k)
		}
		if tr.Cmp(la.Deposited) > 0 {
			return r.Flag("C02/transferred-gt-deposited", "account %s transferred %s > deposited %s", k, tr, la.Deposited)
		}
		if bi(a.Balance.Amount).Sign() < 0 {
			return r.Flag("C02/negative-balance", "account %s balance %s", k, a.Balance)
		}
		tot := new(big.Int).Add(bi(a.Balance.Amount), tr)
		if a.State == etypes.AccountOpen && tot.Cmp(la.Deposited) != 0 {
			return r.Flag("C02/open-account-sum", "open account %s: balance+transferred=%s, deposited %s", k, tot, la.Deposited)
		}
		if tot.Cmp(la.Deposited) > 0 {
			return r.Flag("C02/account-sum-gt-deposited", "account %s: balance+transferred=%s > deposited %s", k, tot, la.Deposited)
		}
		if a.SettledAt > h {
			return r.Flag("C02/settled-in-future", "account %s settled at %d > height %d", k, a.SettledAt, h)
		}
		if b, ok := c.Before.Accounts[k]; ok {
			if a.SettledAt < b.SettledAt {
				return r.Flag("C02/settled-went-back", "account %s settled-at moved back %d -> %d", k, b.SettledAt, a.SettledAt)
			}
			if b.State == etypes.AccountOpen && a.State == etypes.AccountOverdrawn {
				if v := cs.c02Overdraft(c, k, b, a); v != nil {
					return v
				}
			}
		}
	}
	// a successful withdrawal pays the provider everything accrued up to now
	if m, ok := c.Op.Msg.(*mtypes.MsgWithdrawLease); ok && c.OK {
		k := leasePayKey(m.LeaseID)
		if pb, ok := c.Before.Payments[k]; ok && pb.State == etypes.PaymentOpen {
			pa := s.Payments[k]
			a := s.Accounts[acctKey(pa.AccountID)]
			if a.State == etypes.AccountOpen {
				r.Count("probe:withdraw-settles")
				lp := c.L.Pays[k]
				want := new(big.Int).Mul(lp.Rate, big.NewInt(h-lp.OpenedAt))
				if bi(pa.Withdrawn.Amount).Cmp(want) != 0 || bi(pa.Balance.Amount).Sign() != 0 {
					return r.Flag("C02/withdraw-not-up-to-now", "withdraw on %s at h=%d: withdrawn=%s balance=%s, accrued since h=%d at %s/block is %s",
						k, h, pa.Withdrawn.Amount, pa.Balance.Amount, lp.OpenedAt, lp.Rate, want)
				}
			}
		}
	}
	return nil
}

func (cs *checkerSet) c02Overdraft(c *TxCtx, k string, b, a etypes.Account) *core.Violation {
	r := cs.r
	B := bi(b.Balance.Amount)
	e := big.NewInt(c.Height - b.SettledAt)
	R := new(big.Int)
	var open []string
	for _, pk := range keysOf(c.Before.Payments) {
		p := c.Before.Payments[pk]
		if acctKey(p.AccountID) == k && p.State == etypes.PaymentOpen {
			open = append(open, pk)
			R.Add(R, c.L.Pays[pk].Rate)
		}
	}
	r.Count("probe:overdraft")
	if len(open) >= 2 {
		r.Count("probe:overdraft-multi-payment")
	}
	if len(open) == 0 || R.Sign() == 0 {
		return r.Flag("C02/overdraft-without-payments", "account %s overdrawn with no open payment", k)
	}
	need := new(big.Int).Mul(R, e)
	if B.Cmp(need) >= 0 {
		return r.Flag("C02/overdraft-while-funded", "account %s declared overdrawn although balance %s covers %s blocks x %s", k, B, e, R)
	}
	full := new(big.Int).Quo(B, R)
	if full.Cmp(e) > 0 {
		full = e
	}
	sum := new(big.Int)
	for _, pk := range open {
		rate := c.L.Pays[pk].Rate
		cr := new(big.Int).Sub(paid(c.After.Payments[pk]), paid(c.Before.Payments[pk]))
		lo := new(big.Int).Mul(rate, full)
		hi := new(big.Int).Add(lo, rate)
		if cr.Cmp(lo) < 0 || cr.Cmp(hi) > 0 {
			return r.Flag("C02/overdraft-share", "overdraft of %s (balance %s, %d payees, %s full blocks): %s got %s, entitled to [%s,%s]",
				k, B, len(open), full, pk, cr, lo, hi)
		}
		sum.Add(sum, cr)
	}
	if sum.Cmp(B) != 0 {
		return r.Flag("C02/overdraft-not-fully-distributed", "overdraft of %s: balance %s, distributed %s", k, B, sum)
	}
	if bi(a.Balance.Amount).Sign() != 0 {
		return r.Flag("C02/overdrawn-balance-nonzero", "overdrawn account %s keeps balance %s", k, a.Balance)
	}
	return nil
}

// ---------------------------------------------------------------- C03

func (cs *checkerSet) c03State(w *World, s *Snap, why string) *core.Violation {
	r := cs.r
	anyOpen := false
	for _, k := range keysOf(s.Accounts) {
		a := s.Accounts[k]
		if a.State == etypes.AccountOpen {
			anyOpen = true
		} else if !a.Balance.IsZero() {
			return r.Flag("C03/closed-account-nonzero", "%s: account %s is %s with balance %s", why, k, a.State, a.Balance)
		}
	}
	for _, k := range keysOf(s.Payments) {
		p := s.Payments[k]
		a, ok := s.Accounts[acctKey(p.AccountID)]
		if !ok {
			return r.Flag("C03/payment-without-account", "%s: payment %s has no account", why, k)
		}
		if p.State == etypes.PaymentOpen {
			anyOpen = true
			if a.State != etypes.AccountOpen {
				return r.Flag("C03/payment-open-account-not-open", "%s: payment %s is open but its account is %s", why, k, a.State)
			}
		} else if !p.Balance.IsZero() {
			return r.Flag("C03/closed-payment-nonzero", "%s: payment %s is %s with balance %s", why, k, p.State, p.Balance)
		}
	}
	gs := &etypes.GenesisState{}
	for _, k := range keysOf(s.Accounts) {
		gs.Accounts = append(gs.Accounts, s.Accounts[k])
	}
	for _, k := range keysOf(s.Payments) {
		gs.Payments = append(gs.Payments, s.Payments[k])
	}
	if err := escrow.ValidateGenesis(gs); err != nil {
		return r.Flag("C03/validate-genesis", "%s: escrow.ValidateGenesis on the live state: %v", why, err)
	}
	if !anyOpen && !s.Bank[w.EscrowMA].IsZero() {
		return r.Flag("C03/module-holds-coins-nothing-open", "%s: nothing open but escrow module holds %s", why, s.Bank[w.EscrowMA])
	}
	return nil
}

func (cs *checkerSet) c03Tx(c *TxCtx) *core.Violation {
	r := cs.r
	if v := cs.c03State(c.W, c.After, "after "+c.Op.Kind); v != nil {
		return v
	}
	// monotone: a record that is closed/overdrawn never changes again, nothing disappears
	for _, k := range keysOf(c.Before.Accounts) {
		b := c.Before.Accounts[k]
		a, ok := c.After.Accounts[k]
		if !ok {
			return r.Flag("C03/account-removed", "account %s removed", k)
		}
		if b.State != etypes.AccountOpen && !bytes.Equal(c.W.Cdc.MustMarshalBinaryBare(&b), c.W.Cdc.MustMarshalBinaryBare(&a)) {
			return r.Flag("C03/closed-account-changed", "account %s was %s and changed afterwards: %v -> %v", k, b.State, b, a)
		}
	}
	for _, k := range keysOf(c.Before.Payments) {
		b := c.Before.Payments[k]
		a, ok := c.After.Payments[k]
		if !ok {
			return r.Flag("C03/payment-removed", "payment %s removed", k)
		}
		if b.State != etypes.PaymentOpen && !bytes.Equal(c.W.Cdc.MustMarshalBinaryBare(&b), c.W.Cdc.MustMarshalBinaryBare(&a)) {
			return r.Flag("C03/closed-payment-changed", "payment %s was %s and changed afterwards: %v -> %v", k, b.State, b, a)
		}
	}
	if !c.OK {
		return nil
	}
	// a successful close request takes effect even when nothing is owed
	notOpenPay := func(k, what string) *core.Violation {
		if p, ok := c.After.Payments[k]; ok && p.State == etypes.PaymentOpen {
			zero := ""
			if pb, ok := c.Before.Payments[k]; ok && paid(pb).Cmp(paid(p)) == 0 {
				zero = " (nothing was owed at that moment)"
				r.Count("probe:close-with-nothing-owed")
			}
			return r.Flag("C03/close-ineffective-payment", "%s succeeded but payment %s is still open%s", what, k, zero)
		}
		return nil
	}
	notOpenAcct := func(k, what string) *core.Violation {
		if a, ok := c.After.Accounts[k]; ok && a.State == etypes.AccountOpen {
			return r.Flag("C03/close-ineffective-account", "%s succeeded but account %s is still open", what, k)
		}
		for _, pk := range keysOf(c.After.Payments) {
			p := c.After.Payments[pk]
			if acctKey(p.AccountID) == k && p.State == etypes.PaymentOpen {
				return r.Flag("C03/close-ineffective-account-payments", "%s succeeded but payment %s of the closed account is still open", what, pk)
			}
		}
		return nil
	}
	switch m := c.Op.Msg.(type) {
	case *mtypes.MsgCloseLease:
		cs.probeSameBlockClose(c, leasePayKey(m.LeaseID))
		if v := notOpenPay(leasePayKey(m.LeaseID), "close-lease"); v != nil {
			return v
		}
	case *mtypes.MsgCloseBid:
		cs.probeSameBlockClose(c, leasePayKey(m.BidID.LeaseID()))
		if v := notOpenAcct(bidAcctKey(m.BidID), "close-bid"); v != nil {
			return v
		}
		if v := notOpenPay(leasePayKey(m.BidID.LeaseID()), "close-bid"); v != nil {
			return v
		}
	case *dtypes.MsgCloseDeployment:
		k := depAcctKey(m.ID)
		if b, ok := c.Before.Accounts[k]; ok && b.SettledAt == c.Height {
			r.Count("probe:account-close-zero-elapsed")
		}
		if v := notOpenAcct(k, "close-deployment"); v != nil {
			return v
		}
	case *dtypes.MsgCloseGroup, *dtypes.MsgPauseGroup:
		var g dtypes.GroupID
		if x, ok := m.(*dtypes.MsgCloseGroup); ok {
			g = x.ID
		} else {
			g = m.(*dtypes.MsgPauseGroup).ID
		}
		pre := fmt.Sprintf("deployment/%s/%d/%d/", g.Owner, g.DSeq, g.GSeq)
		for _, pk := range keysOf(c.After.Payments) {
			if strings.HasPrefix(pk, pre) {
				if v := notOpenPay(pk, c.Op.Kind); v != nil {
					return v
				}
			}
		}
	}
	return nil
}

func (cs *checkerSet) probeSameBlockClose(c *TxCtx, payKey string) {
	if pb, ok := c.Before.Payments[payKey]; ok && pb.State == etypes.PaymentOpen {
		if a, ok := c.Before.Accounts[acctKey(pb.AccountID)]; ok && a.SettledAt == c.Height {
			cs.r.Count("probe:payment-close-zero-elapsed")
		}
		if paid(pb).Sign() == 0 {
			cs.r.Count("probe:payment-close-zero-accrued")
		}
	}
}

// ---------------------------------------------------------------- C05

func (cs *checkerSet) c05State(w *World, s *Snap, why string) *core.Violation {
	r := cs.r
	for _, k := range keysOf(s.Leases) {
		l := s.Leases[k]
		p, ok := s.Payments[leasePayKey(l.LeaseID)]
		open := ok && p.State == etypes.PaymentOpen
		if (l.State == mtypes.LeaseActive) != open {
			st := "missing"
			if ok {
				st = p.State.String()
			}
			return r.Flag("C05/lease-vs-payment", "%s: lease %s is %s but its payment stream is %s", why, k, l.State, st)
		}
	}
	leaseByPay := map[string]bool{}
	for _, l := range s.Leases {
		leaseByPay[leasePayKey(l.LeaseID)] = true
	}
	for _, k := range keysOf(s.Payments) {
		if s.Payments[k].State == etypes.PaymentOpen && !leaseByPay[k] {
			return r.Flag("C05/open-payment-without-lease", "%s: open payment %s has no lease", why, k)
		}
	}
	for _, k := range keysOf(s.Bids) {
		b := s.Bids[k]
		a, ok := s.Accounts[bidAcctKey(b.BidID)]
		open := ok && a.State == etypes.AccountOpen
		live := b.State == mtypes.BidOpen || b.State == mtypes.BidActive
		if live != open {
			st := "missing"
			if ok {
				st = a.State.String()
			}
			return r.Flag("C05/bid-vs-account", "%s: bid %s is %s but its deposit account is %s", why, k, b.State, st)
		}
	}
	for _, k := range keysOf(s.Deployments) {
		d := s.Deployments[k]
		a, ok := s.Accounts[depAcctKey(d.DeploymentID)]
		open := ok && a.State == etypes.AccountOpen
		if (d.State == dtypes.DeploymentActive) != open {
			st := "missing"
			if ok {
				st = a.State.String()
			}
			return r.Flag("C05/deployment-vs-account", "%s: deployment %s is %s but its escrow account is %s", why, k, d.State, st)
		}
	}
	depOrBid := map[string]bool{}
	for _, d := range s.Deployments {
		depOrBid[depAcctKey(d.DeploymentID)] = true
	}
	for _, b := range s.Bids {
		depOrBid[bidAcctKey(b.BidID)] = true
	}
	for _, k := range keysOf(s.Accounts) {
		if s.Accounts[k].State == etypes.AccountOpen && !depOrBid[k] {
			return r.Flag("C05/open-account-without-object", "%s: open escrow account %s belongs to no deployment or bid", why, k)
		}
		// "returned exactly when the bid or the deployment ends": an account that is no longer open keeps nothing
		if a := s.Accounts[k]; a.State != etypes.AccountOpen && !a.Balance.Amount.IsNil() && !a.Balance.IsZero() {
			return r.Flag("C05/ended-account-keeps-deposit", "%s: escrow account %s is %s and still holds %s", why, k, a.State, a.Balance)
		}
	}
	return nil
}

func (cs *checkerSet) c05Tx(c *TxCtx) *core.Violation {
	r := cs.r
	if v := cs.c05State(c.W, c.After, "after "+c.Op.Kind); v != nil {
		return v
	}
	if !c.OK {
		return nil
	}
	// did a bid or a deployment end in this transaction?
	ended := false
	for _, k := range keysOf(c.Before.Bids) {
		b, a := c.Before.Bids[k], c.After.Bids[k]
		if (b.State == mtypes.BidOpen || b.State == mtypes.BidActive) && !(a.State == mtypes.BidOpen || a.State == mtypes.BidActive) {
			ended = true
			r.Count("probe:bid-ended")
			la := c.L.Accts[bidAcctKey(b.BidID)]
			ac := c.After.Accounts[bidAcctKey(b.BidID)]
			if la != nil && ac.State == etypes.AccountClosed {
				// a bid account has no payees: the whole deposit must come back
				if !ac.Transferred.IsZero() {
					return r.Flag("C05/bid-deposit-spent", "bid %s ended, %s of its deposit was transferred away", k, ac.Transferred)
				}
			}
		}
	}
	for _, k := range keysOf(c.Before.Deployments) {
		b, a := c.Before.Deployments[k], c.After.Deployments[k]
		if b.State == dtypes.DeploymentActive && a.State != dtypes.DeploymentActive {
			ended = true
			r.Count("probe:deployment-ended")
		}
	}
	if ended {
		exp, problems := moneyFlows(c)
		if len(problems) > 0 {
			return r.Flag("C05/refund-"+classOf(problems[0]), "%s", strings.Join(problems, "; "))
		}
		for _, a := range c.W.Actors {
			want := exp[a.Bech]
			if want == nil {
				want = new(big.Int)
			}
			if got := bankDelta(c, a.Bech); got.Cmp(want) != 0 {
				return r.Flag("C05/refund-amount", "%s: a bid/deployment ended; %s's balance changed by %s, unspent deposits and payouts imply %s",
					c.Op.Kind, a.Name, got, want)
			}
		}
	}
	return nil
}

func sortedInts(m map[int64]bool) []int64 {
	out := make([]int64, 0, len(m))
	for k := range m {
		out = append(out, k)
	}
	sort.Slice(out, func(i, j int) bool { return out[i] < out[j] })
	return out
}
