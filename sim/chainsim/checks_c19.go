package chainsim

import (
	"fmt"
	"math"
	"math/big"

	sdk "github.com/cosmos/cosmos-sdk/types"

	"github.com/ovrclk/akash/types"
	"github.com/ovrclk/akash/types/unit"
	dtypes "github.com/ovrclk/akash/x/deployment/types"

	"verifsim/core"
)

// ---------------------------------------------------------------- C19 generator

// boundaryDeployment builds a create-deployment message that sits at or just beyond one (sometimes two)
// of the bounds of the network's limits table.
func (g *gen) boundaryDeployment() *Op {
	r := g.w.R
	cfg := dtypes.GetValidationConfig()
	t := g.actor("tenant", "bd.tenant")
	id := dtypes.DeploymentID{Owner: t.Bech, DSeq: uint64(1000 + g.vctr*7 + r.Choose(5, "bd.dseq"))}
	g.vctr++
	unitOK := func() dtypes.Resource {
		return dtypes.Resource{Resources: g.resourceUnits(uint64(cfg.MinUnitCPU), cfg.MinUnitMemory, cfg.MinUnitStorage), Count: 1, Price: sdk.NewInt64Coin(Denom, 1)}
	}
	groups := []dtypes.GroupSpec{{Name: "g0", Resources: []dtypes.Resource{unitOK()}}}
	version := g.version()
	deposit := sdk.NewInt64Coin(Denom, g.w.Knobs.DeploymentMinDeposit)
	what := ""
	rv := func(v uint64) types.ResourceValue { return types.NewResourceValue(v) }
	big65 := types.ResourceValue{Val: sdk.NewIntFromBigInt(new(big.Int).Add(new(big.Int).Lsh(big.NewInt(1), 64), big.NewInt(5)))}
	mutate := func() {
		if len(groups) == 0 || len(groups[0].Resources) == 0 {
			return
		}
		u := &groups[0].Resources[0]
		if u.Resources.CPU == nil || u.Resources.Memory == nil || u.Resources.Storage == nil {
			return
		}
		switch k := r.Choose(37, "bd.kind"); k {
		case 0:
			groups = nil
			what += "groups=0 "
		case 1, 2:
			n := cfg.MaxGroupCount + (k - 1) // 20, 21
			groups = nil
			for i := 0; i < n; i++ {
				groups = append(groups, dtypes.GroupSpec{Name: fmt.Sprintf("g%d", i), Resources: []dtypes.Resource{unitOK()}})
			}
			what += fmt.Sprintf("groups=%d ", n)
		case 3:
			groups[0].Resources = nil
			what += "units=0 "
		case 4, 5:
			n := cfg.MaxGroupUnits + (k - 4)
			groups[0].Resources = nil
			for i := 0; i < n; i++ {
				groups[0].Resources = append(groups[0].Resources, unitOK())
			}
			what += fmt.Sprintf("units=%d ", n)
		case 6:
			u.Resources.CPU.Units = rv(uint64(cfg.MinUnitCPU) - 1)
			what += "cpu=min-1 "
		case 7:
			u.Resources.CPU.Units = rv(uint64(cfg.MaxUnitCPU))
			what += "cpu=max "
		case 8:
			u.Resources.CPU.Units = rv(uint64(cfg.MaxUnitCPU) + 1)
			what += "cpu=max+1 "
		case 9:
			u.Resources.Memory.Quantity = rv(cfg.MinUnitMemory - 1)
			what += "mem=min-1 "
		case 10:
			u.Resources.Memory.Quantity = rv(cfg.MaxUnitMemory)
			what += "mem=max "
		case 11:
			u.Resources.Memory.Quantity = rv(cfg.MaxUnitMemory + 1)
			what += "mem=max+1 "
		case 12:
			u.Resources.Storage.Quantity = rv(cfg.MinUnitStorage - 1)
			what += "storage=min-1 "
		case 13:
			u.Resources.Storage.Quantity = rv(cfg.MaxUnitStorage)
			what += "storage=max "
		case 14:
			u.Resources.Storage.Quantity = rv(cfg.MaxUnitStorage + 1)
			what += "storage=max+1 "
		case 15:
			u.Count = 0
			what += "count=0 "
		case 16:
			u.Count = uint32(cfg.MaxUnitCount)
			what += "count=max "
		case 17:
			u.Count = uint32(cfg.MaxUnitCount) + 1
			what += "count=max+1 "
		case 18:
			u.Count = math.MaxUint32
			u.Resources.Memory.Quantity = rv(1 << 33)
			what += "count=maxuint32,mem=2^33 (product overflows uint64) "
		case 19:
			u.Price = sdk.NewInt64Coin(Denom, 0)
			what += "price=0 "
		case 20:
			u.Price = sdk.NewInt64Coin(Denom, int64(cfg.MaxUnitPrice))
			what += "price=max "
		case 21:
			u.Price = sdk.NewInt64Coin(Denom, int64(cfg.MaxUnitPrice)+1)
			what += "price=max+1 "
		case 22:
			u.Price = sdk.NewInt64Coin("xyz", 5)
			what += "price-denom=foreign "
		case 23:
			// per-unit values fine, group total beyond the group bound
			u.Resources.CPU.Units = rv(uint64(cfg.MaxUnitCPU))
			u.Count = 3
			what += "cpu=max,count=3 (group total > max) "
		case 24:
			u.Resources.Memory.Quantity = rv(cfg.MaxUnitMemory)
			u.Count = 3
			what += "mem=max,count=3 (group total > max) "
		case 25:
			u.Resources.Storage.Quantity = rv(cfg.MaxUnitStorage)
			u.Count = 2
			what += "storage=max,count=2 (group total > max) "
		case 26:
			groups = append(groups, dtypes.GroupSpec{Name: groups[0].Name, Resources: []dtypes.Resource{unitOK()}})
			what += "duplicate-group-name "
		case 27:
			groups[0].Name = ""
			what += "empty-group-name "
		case 28:
			lens := []int{0, 31, 33, 64}
			version = version[:0]
			n := lens[r.Choose(len(lens), "bd.verlen")]
			for i := 0; i < n; i++ {
				version = append(version, byte(i+1))
			}
			what += fmt.Sprintf("version-len=%d ", n)
		case 29:
			if g.w.Knobs.DeploymentMinDeposit > 1 {
				deposit = sdk.NewInt64Coin(Denom, g.w.Knobs.DeploymentMinDeposit-1)
			}
			what += "deposit=min-1 "
		case 30:
			deposit = sdk.NewInt64Coin("xyz", g.w.Knobs.DeploymentMinDeposit)
			what += "deposit-denom=foreign "
		case 31:
			switch r.Choose(3, "bd.nil") {
			case 0:
				u.Resources.CPU = nil
			case 1:
				u.Resources.Memory = nil
			default:
				u.Resources.Storage = nil
			}
			what += "nil-resource "
		case 32:
			switch r.Choose(3, "bd.big") {
			case 0:
				u.Resources.CPU.Units = big65
			case 1:
				u.Resources.Memory.Quantity = big65
			default:
				u.Resources.Storage.Quantity = big65
			}
			what += "value=2^64+5 "
		case 33:
			// two units whose sum crosses the group bound while each is within the unit bound
			groups[0].Resources = append(groups[0].Resources, unitOK())
			groups[0].Resources[0].Resources.Memory.Quantity = rv(cfg.MaxUnitMemory)
			groups[0].Resources[0].Count = 2
			groups[0].Resources[1].Resources.Memory.Quantity = rv(unit.Mi)
			what += "mem: 2x16Gi + 1Mi (sum = group max + 1Mi) "
		case 34:
			// the same name twice with other groups in between, in front or behind
			n := 3 + r.Choose(3, "bd.dup.n")
			groups = nil
			for i := 0; i < n; i++ {
				groups = append(groups, dtypes.GroupSpec{Name: fmt.Sprintf("g%d", i), Resources: []dtypes.Resource{unitOK()}})
			}
			i := r.Choose(n-2, "bd.dup.i")
			j := i + 2 + r.Choose(n-i-2, "bd.dup.j")
			groups[j].Name = groups[i].Name
			what += fmt.Sprintf("groups=%d, names of #%d and #%d equal (not adjacent) ", n, i, j)
		case 35:
			// a value that is in range only after truncation to 32 or 16 bits
			wrap := []uint64{1 << 32, 1 << 16, 1 << 48}[r.Choose(3, "bd.wrap.bits")]
			switch r.Choose(4, "bd.wrap.field") {
			case 0:
				u.Resources.CPU.Units = rv(wrap + uint64(cfg.MinUnitCPU) + 90)
			case 1:
				u.Resources.Memory.Quantity = rv(wrap*unit.Mi + cfg.MinUnitMemory)
			case 2:
				u.Resources.Storage.Quantity = rv(wrap*unit.Mi + cfg.MinUnitStorage)
			default:
				u.Count = uint32(wrap) + 1 // 2^16+1 (2^32 and 2^48 wrap to 1 by themselves: in range)
			}
			what += fmt.Sprintf("value = in-range + %d (in range only when truncated) ", wrap)
		case 36:
			// a later resource entry carries the excess: the first one is fine
			groups[0].Resources = append(groups[0].Resources, unitOK(), unitOK())
			x := &groups[0].Resources[1+r.Choose(2, "bd.later.which")]
			switch r.Choose(4, "bd.later.field") {
			case 0:
				x.Resources.CPU.Units = rv(uint64(cfg.MaxUnitCPU) + 1)
			case 1:
				x.Resources.Memory.Quantity = rv(cfg.MaxUnitMemory + 1)
			case 2:
				x.Count = uint32(cfg.MaxUnitCount) + 1
			default:
				x.Price = sdk.NewInt64Coin(Denom, 0)
			}
			what += "excess in a later resource entry "
		}
	}
	mutate()
	if r.Bool(20, "bd.second") && len(groups) > 0 && len(groups[0].Resources) > 0 {
		mutate()
	}
	// the group that carries the excess need not be the last (or only) one of the deployment
	if len(groups) == 1 && len(groups) < cfg.MaxGroupCount && r.Bool(35, "bd.more-groups") {
		n := 1 + r.Choose(2, "bd.more-groups.n")
		for i := 0; i < n; i++ {
			groups = append(groups, dtypes.GroupSpec{Name: fmt.Sprintf("x%d", i), Resources: []dtypes.Resource{unitOK()}})
		}
		if r.Bool(50, "bd.more-groups.middle") && len(groups) >= 3 {
			groups[0], groups[1] = groups[1], groups[0] // the mutated group in the middle
		}
		what += fmt.Sprintf("followed by %d valid groups ", n)
	}
	msg := dtypes.NewMsgCreateDeployment(id, groups, version, deposit)
	return &Op{Kind: "BoundaryDeployment", Msg: msg, Required: t, Boundary: what}
}

// ---------------------------------------------------------------- C19 oracle (independent, big integers)

func rvBig(v types.ResourceValue) *big.Int {
	if v.Val.IsNil() {
		return new(big.Int)
	}
	return v.Val.BigInt()
}

func inRange(v *big.Int, lo, hi uint64) bool {
	return v.Cmp(new(big.Int).SetUint64(lo)) >= 0 && v.Cmp(new(big.Int).SetUint64(hi)) <= 0
}

// groupWithinLimits is the statement of C19 for one group, evaluated with big integers.
func groupWithinLimits(gs dtypes.GroupSpec) string {
	cfg := dtypes.GetValidationConfig()
	if n := len(gs.Resources); n < 1 || n > cfg.MaxGroupUnits {
		return fmt.Sprintf("group %q has %d resource units (1..%d)", gs.Name, n, cfg.MaxGroupUnits)
	}
	tc, tm, ts := new(big.Int), new(big.Int), new(big.Int)
	for i, u := range gs.Resources {
		if u.Resources.CPU == nil || u.Resources.Memory == nil || u.Resources.Storage == nil {
			return fmt.Sprintf("group %q unit %d lacks cpu/memory/storage", gs.Name, i)
		}
		c, m, s := rvBig(u.Resources.CPU.Units), rvBig(u.Resources.Memory.Quantity), rvBig(u.Resources.Storage.Quantity)
		if !inRange(c, uint64(cfg.MinUnitCPU), uint64(cfg.MaxUnitCPU)) {
			return fmt.Sprintf("group %q unit %d cpu %s outside [%d,%d]", gs.Name, i, c, cfg.MinUnitCPU, cfg.MaxUnitCPU)
		}
		if !inRange(m, cfg.MinUnitMemory, cfg.MaxUnitMemory) {
			return fmt.Sprintf("group %q unit %d memory %s outside bounds", gs.Name, i, m)
		}
		if !inRange(s, cfg.MinUnitStorage, cfg.MaxUnitStorage) {
			return fmt.Sprintf("group %q unit %d storage %s outside bounds", gs.Name, i, s)
		}
		if u.Count < uint32(cfg.MinUnitCount) || u.Count > uint32(cfg.MaxUnitCount) {
			return fmt.Sprintf("group %q unit %d count %d outside [%d,%d]", gs.Name, i, u.Count, cfg.MinUnitCount, cfg.MaxUnitCount)
		}
		if u.Price.Denom != Denom {
			return fmt.Sprintf("group %q unit %d priced in %q", gs.Name, i, u.Price.Denom)
		}
		if u.Price.Amount.IsNil() || !inRange(u.Price.Amount.BigInt(), cfg.MinUnitPrice, cfg.MaxUnitPrice) {
			return fmt.Sprintf("group %q unit %d price %s outside [%d,%d]", gs.Name, i, u.Price.Amount, cfg.MinUnitPrice, cfg.MaxUnitPrice)
		}
		n := new(big.Int).SetUint64(uint64(u.Count))
		tc.Add(tc, new(big.Int).Mul(c, n))
		tm.Add(tm, new(big.Int).Mul(m, n))
		ts.Add(ts, new(big.Int).Mul(s, n))
	}
	if tc.Sign() <= 0 || tc.Cmp(new(big.Int).SetUint64(cfg.MaxGroupCPU)) > 0 {
		return fmt.Sprintf("group %q total cpu %s outside (0,%d]", gs.Name, tc, cfg.MaxGroupCPU)
	}
	if tm.Sign() <= 0 || tm.Cmp(new(big.Int).SetUint64(cfg.MaxGroupMemory)) > 0 {
		return fmt.Sprintf("group %q total memory %s outside (0,%d]", gs.Name, tm, cfg.MaxGroupMemory)
	}
	if ts.Sign() <= 0 || ts.Cmp(new(big.Int).SetUint64(cfg.MaxGroupStorage)) > 0 {
		return fmt.Sprintf("group %q total storage %s outside (0,%d]", gs.Name, ts, cfg.MaxGroupStorage)
	}
	return ""
}

func deploymentWithinLimits(groups []dtypes.GroupSpec, version []byte) string {
	cfg := dtypes.GetValidationConfig()
	if n := len(groups); n < 1 || n > cfg.MaxGroupCount {
		return fmt.Sprintf("%d groups (1..%d)", n, cfg.MaxGroupCount)
	}
	names := map[string]bool{}
	for _, gs := range groups {
		if names[gs.Name] {
			return fmt.Sprintf("group name %q not unique", gs.Name)
		}
		names[gs.Name] = true
		if p := groupWithinLimits(gs); p != "" {
			return p
		}
	}
	if len(version) != 32 {
		return fmt.Sprintf("version has %d bytes", len(version))
	}
	return ""
}

func (cs *checkerSet) c19State(w *World, s *Snap, why string) *core.Violation {
	for _, k := range keysOf(s.Deployments) {
		d := s.Deployments[k]
		var gs []dtypes.GroupSpec
		for _, gk := range keysOf(s.Groups) {
			g := s.Groups[gk]
			if did(g.GroupID.DeploymentID()) == k {
				gs = append(gs, g.GroupSpec)
			}
		}
		if p := deploymentWithinLimits(gs, d.Version); p != "" {
			return cs.r.Flag("C19/stored-deployment-outside-limits", "%s: stored deployment %s: %s", why, k, p)
		}
	}
	return nil
}

func (cs *checkerSet) c19Tx(c *TxCtx) *core.Violation {
	r := cs.r
	if m, ok := c.Op.Msg.(*dtypes.MsgCreateDeployment); ok {
		problem := deploymentWithinLimits(m.Groups, m.Version)
		min := c.W.Knobs.DeploymentMinDeposit
		if problem == "" && (m.Deposit.Denom != Denom || m.Deposit.Amount.LT(sdk.NewInt(min))) {
			problem = fmt.Sprintf("deposit %s below minimum %d%s", m.Deposit, min, Denom)
		}
		if c.Op.Kind == "BoundaryDeployment" {
			if problem == "" {
				r.Count("probe:boundary-valid")
			} else {
				r.Count("probe:boundary-invalid")
			}
			if c.OK {
				r.Count("probe:boundary-accepted")
			}
		}
		if c.OK && problem != "" {
			return r.Flag("C19/admitted-outside-limits", "create-deployment [%s] was accepted although %s", c.Op.Boundary, problem)
		}
	}
	if !c.OK {
		if e := noEffect(c); e != "" {
			return r.Flag("C19/rejected-with-effect", "rejected %s [%s] (code %s/%d) had an effect: %s", c.Op.Kind, c.Op.Boundary, c.Res.Codespace, c.Res.Code, e)
		}
	}
	return cs.c19State(c.W, c.After, "after "+c.Op.Kind)
}
