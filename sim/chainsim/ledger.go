package chainsim

import (
	"fmt"
	"math/big"

	banktypes "github.com/cosmos/cosmos-sdk/x/bank/types"

	dtypes "github.com/ovrclk/akash/x/deployment/types"
	mtypes "github.com/ovrclk/akash/x/market/types"
)

// Ledger is the harness's own book-keeping, derived only from the *messages that succeeded* and from
// market-side lifecycle records - never from escrow records.  It is the reference for C01/C02/C05.
type Ledger struct {
	w        *World
	Accts    map[string]*LAcct // "deployment/<owner>/<dseq>" or "bid/<bidid>"
	Pays     map[string]*LPay  // "deployment/<owner>/<dseq>/<gseq>/<oseq>/<provider>"
	BidPrice map[string]*big.Int
}

type LAcct struct {
	Key       string
	Depositor string // bech32: who paid the deposits and must get any refund
	Deposited *big.Int
	Refunded  *big.Int
	OpenedAt  int64
}

type LPay struct {
	Key      string
	AcctKey  string
	Payee    string
	Rate     *big.Int
	OpenedAt int64
	EndedAt  int64 // height at which the lease stopped being active on the market side (0 = still active)
	LeaseKey string
}

func NewLedger(w *World) *Ledger {
	return &Ledger{w: w, Accts: map[string]*LAcct{}, Pays: map[string]*LPay{}, BidPrice: map[string]*big.Int{}}
}

// independent re-implementation of the id mapping between market/deployment objects and escrow ids
func depAcctKey(id dtypes.DeploymentID) string {
	return fmt.Sprintf("deployment/%s/%d", id.Owner, id.DSeq)
}
func bidAcctKey(id mtypes.BidID) string {
	return fmt.Sprintf("bid/%s/%d/%d/%d/%s", id.Owner, id.DSeq, id.GSeq, id.OSeq, id.Provider)
}
func leasePayKey(id mtypes.LeaseID) string {
	return fmt.Sprintf("deployment/%s/%d/%d/%d/%s", id.Owner, id.DSeq, id.GSeq, id.OSeq, id.Provider)
}

// Apply updates the model from the operation and its outcome.
func (l *Ledger) Apply(c *TxCtx) {
	if c.OK {
		switch m := c.Op.Msg.(type) {
		case *dtypes.MsgCreateDeployment:
			k := depAcctKey(m.ID)
			l.Accts[k] = &LAcct{Key: k, Depositor: m.ID.Owner, Deposited: new(big.Int).Set(m.Deposit.Amount.BigInt()), Refunded: new(big.Int), OpenedAt: c.Height}
		case *dtypes.MsgDepositDeployment:
			if a := l.Accts[depAcctKey(m.ID)]; a != nil {
				a.Deposited.Add(a.Deposited, m.Amount.Amount.BigInt())
			}
		case *mtypes.MsgCreateBid:
			id := mtypes.MakeBidID(m.Order, mustAddr(m.Provider))
			k := bidAcctKey(id)
			l.Accts[k] = &LAcct{Key: k, Depositor: m.Provider, Deposited: new(big.Int).Set(m.Deposit.Amount.BigInt()), Refunded: new(big.Int), OpenedAt: c.Height}
			l.BidPrice[bid(id)] = new(big.Int).Set(m.Price.Amount.BigInt())
		case *mtypes.MsgCreateLease:
			lk := leasePayKey(m.BidID.LeaseID())
			rate := l.BidPrice[bid(m.BidID)]
			if rate == nil {
				rate = new(big.Int)
			}
			l.Pays[lk] = &LPay{Key: lk, AcctKey: depAcctKey(m.BidID.DeploymentID()), Payee: m.BidID.Provider, Rate: rate, OpenedAt: c.Height, LeaseKey: lid(m.BidID.LeaseID())}
		}
	}
	// lease end is a market-side fact: first tx after which the lease record is no longer active
	for _, p := range l.Pays {
		if p.EndedAt != 0 {
			continue
		}
		if ls, ok := c.After.Leases[p.LeaseKey]; !ok || ls.State != mtypes.LeaseActive {
			p.EndedAt = c.Height
		}
	}
}

// deposits made by this transaction, by escrow account key (only when the tx succeeded)
func depositsOf(c *TxCtx) map[string]*big.Int {
	out := map[string]*big.Int{}
	if !c.OK {
		return out
	}
	switch m := c.Op.Msg.(type) {
	case *dtypes.MsgCreateDeployment:
		out[depAcctKey(m.ID)] = m.Deposit.Amount.BigInt()
	case *dtypes.MsgDepositDeployment:
		out[depAcctKey(m.ID)] = m.Amount.Amount.BigInt()
	case *mtypes.MsgCreateBid:
		out[bidAcctKey(mtypes.MakeBidID(m.Order, mustAddr(m.Provider)))] = m.Deposit.Amount.BigInt()
	}
	return out
}

// bank transfers the transaction itself orders (MsgSend), by bech32 delta in uakt
func sendsOf(c *TxCtx) map[string]*big.Int {
	out := map[string]*big.Int{}
	if !c.OK {
		return out
	}
	if m, ok := c.Op.Msg.(*banktypes.MsgSend); ok {
		amt := m.Amount.AmountOf(Denom).BigInt()
		out[m.FromAddress] = new(big.Int).Neg(amt)
		if cur, ok := out[m.ToAddress]; ok {
			out[m.ToAddress] = new(big.Int).Add(cur, amt)
		} else {
			out[m.ToAddress] = new(big.Int).Set(amt)
		}
	}
	return out
}
