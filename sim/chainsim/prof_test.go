package chainsim

import (
	"testing"
	"verifsim/core"
)

func TestProf(t *testing.T) {
	for i := 0; i < 6; i++ {
		r := core.NewRunForTest(uint64(i), "C04")
		Engine{}.Execute(r)
	}
}
