package chainsim

import (
	"fmt"
	"math/big"

	sdk "github.com/cosmos/cosmos-sdk/types"

	dtypes "github.com/ovrclk/akash/x/deployment/types"
	mtypes "github.com/ovrclk/akash/x/market/types"

	"verifsim/core"
)

// ---------------------------------------------------------------- C04

func (cs *checkerSet) c04State(w *World, s *Snap, why string) *core.Violation {
	r := cs.r
	activeLeases := map[string][]string{} // order -> active leases
	for _, k := range keysOf(s.Leases) {
		l := s.Leases[k]
		ok := oid(l.LeaseID.OrderID())
		if l.State == mtypes.LeaseActive {
			activeLeases[ok] = append(activeLeases[ok], k)
			b, hb := s.Bids[bid(l.LeaseID.BidID())]
			if !hb || b.State != mtypes.BidActive {
				return r.Flag("C04/active-lease-bid-not-matched", "%s: lease %s active but its bid is %v", why, k, stateOrMissing(hb, b.State.String()))
			}
			o, ho := s.Orders[ok]
			if !ho || o.State != mtypes.OrderActive {
				return r.Flag("C04/active-lease-order-not-matched", "%s: lease %s active but its order is %v", why, k, stateOrMissing(ho, o.State.String()))
			}
			g, hg := s.Groups[gid(l.LeaseID.GroupID())]
			if !hg || g.State != dtypes.GroupOpen {
				return r.Flag("C04/active-lease-group-not-open", "%s: lease %s active but its group is %v", why, k, stateOrMissing(hg, g.State.String()))
			}
			d, hd := s.Deployments[did(l.LeaseID.DeploymentID())]
			if !hd || d.State != dtypes.DeploymentActive {
				return r.Flag("C04/active-lease-deployment-not-active", "%s: lease %s active but its deployment is %v", why, k, stateOrMissing(hd, d.State.String()))
			}
		}
		// price relations hold for every lease ever created
		if b, hb := s.Bids[bid(l.LeaseID.BidID())]; hb {
			if !l.Price.IsEqual(b.Price) {
				return r.Flag("C04/lease-price-ne-bid-price", "%s: lease %s price %s, bid price %s", why, k, l.Price, b.Price)
			}
		} else {
			return r.Flag("C04/lease-without-bid", "%s: lease %s has no bid record", why, k)
		}
		if o, ho := s.Orders[ok]; ho {
			if max := orderMaxPrice(o.Spec); max.Denom != l.Price.Denom || max.Amount.LT(l.Price.Amount) {
				return r.Flag("C04/lease-price-gt-order-max", "%s: lease %s price %s exceeds order maximum %s", why, k, l.Price, max)
			}
		} else {
			return r.Flag("C04/lease-without-order", "%s: lease %s has no order record", why, k)
		}
	}
	nonClosedPerGroup := map[string]int{}
	for _, k := range keysOf(s.Orders) {
		o := s.Orders[k]
		n := len(activeLeases[k])
		if (o.State == mtypes.OrderActive) != (n == 1) || n > 1 {
			return r.Flag("C04/order-matched-iff-one-active-lease", "%s: order %s is %s with %d active leases", why, k, o.State, n)
		}
		if o.State != mtypes.OrderClosed {
			nonClosedPerGroup[gid(o.OrderID.GroupID())]++
		}
	}
	for _, k := range keysOf(s.Bids) {
		b := s.Bids[k]
		if b.State == mtypes.BidOpen {
			o, ho := s.Orders[oid(b.BidID.OrderID())]
			if !ho || o.State != mtypes.OrderOpen {
				return r.Flag("C04/open-bid-order-not-open", "%s: bid %s open but its order is %v", why, k, stateOrMissing(ho, o.State.String()))
			}
		}
		if b.State == mtypes.BidActive {
			l, hl := s.Leases[k]
			if !hl || l.State != mtypes.LeaseActive {
				return r.Flag("C04/matched-bid-without-active-lease", "%s: bid %s matched but its lease is %v", why, k, stateOrMissing(hl, l.State.String()))
			}
		}
	}
	for _, k := range keysOf(s.Groups) {
		g := s.Groups[k]
		d, hd := s.Deployments[did(g.GroupID.DeploymentID())]
		if !hd {
			return r.Flag("C04/group-without-deployment", "%s: group %s has no deployment", why, k)
		}
		n := nonClosedPerGroup[k]
		if n > 1 {
			return r.Flag("C04/group-many-live-orders", "%s: group %s has %d non-closed orders", why, k, n)
		}
		if g.State == dtypes.GroupOpen && d.State == dtypes.DeploymentActive && n != 1 {
			return r.Flag("C04/open-group-without-order", "%s: open group %s of an active deployment has %d non-closed orders", why, k, n)
		}
		if g.State != dtypes.GroupOpen && n != 0 {
			return r.Flag("C04/non-open-group-with-order", "%s: group %s is %s but has %d non-closed orders", why, k, g.State, n)
		}
		if d.State == dtypes.DeploymentClosed {
			if g.State == dtypes.GroupOpen || g.State == dtypes.GroupPaused {
				return r.Flag("C04/closed-deployment-live-group", "%s: deployment %s is closed but group %s is %s", why, did(d.DeploymentID), k, g.State)
			}
		}
	}
	for _, k := range keysOf(s.Deployments) {
		d := s.Deployments[k]
		if d.State != dtypes.DeploymentClosed {
			continue
		}
		for _, ok := range keysOf(s.Orders) {
			o := s.Orders[ok]
			if did(o.OrderID.GroupID().DeploymentID()) == k && o.State != mtypes.OrderClosed {
				return r.Flag("C04/closed-deployment-live-order", "%s: deployment %s closed but order %s is %s", why, k, ok, o.State)
			}
		}
		for _, bk := range keysOf(s.Bids) {
			b := s.Bids[bk]
			if did(b.BidID.DeploymentID()) == k && (b.State == mtypes.BidOpen || b.State == mtypes.BidActive) {
				return r.Flag("C04/closed-deployment-live-bid", "%s: deployment %s closed but bid %s is %s", why, k, bk, b.State)
			}
		}
		for _, lk := range keysOf(s.Leases) {
			l := s.Leases[lk]
			if did(l.LeaseID.DeploymentID()) == k && l.State == mtypes.LeaseActive {
				return r.Flag("C04/closed-deployment-live-lease", "%s: deployment %s closed but lease %s is active", why, k, lk)
			}
		}
	}
	for _, k := range keysOf(s.Orders) {
		if _, ok := s.Groups[gid(s.Orders[k].OrderID.GroupID())]; !ok {
			return r.Flag("C04/order-without-group", "%s: order %s has no group", why, k)
		}
	}
	return nil
}

func stateOrMissing(has bool, st string) string {
	if !has {
		return "missing"
	}
	return st
}

func (cs *checkerSet) c04Tx(c *TxCtx) *core.Violation {
	r := cs.r
	// reach probes
	for _, k := range keysOf(c.After.Groups) {
		if c.After.Groups[k].State == dtypes.GroupInsufficientFunds {
			if b, ok := c.Before.Groups[k]; ok && b.State != dtypes.GroupInsufficientFunds {
				r.Count("probe:group-insufficient-funds")
			}
		}
	}
	if c.OK {
		switch c.Op.Kind {
		case "StartGroup":
			r.Count("probe:group-started")
		case "PauseGroup":
			r.Count("probe:group-paused")
		}
	}
	return cs.c04State(c.W, c.After, fmt.Sprintf("after %s", c.Op.Kind))
}

// orderMaxPrice is the order's maximum price computed independently of GroupSpec.Price(): the sum over
// the resource entries of unit price times replica count (what the tenant offered).
func orderMaxPrice(gs dtypes.GroupSpec) sdk.Coin {
	total := new(big.Int)
	denom := ""
	for i, res := range gs.Resources {
		if i == 0 {
			denom = res.Price.Denom
		}
		total.Add(total, new(big.Int).Mul(res.Price.Amount.BigInt(), new(big.Int).SetUint64(uint64(res.Count))))
	}
	return sdk.Coin{Denom: denom, Amount: sdk.NewIntFromBigInt(total)}
}
