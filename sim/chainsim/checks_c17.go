package chainsim

import (
	"bytes"
	"crypto/ed25519"
	"crypto/sha256"
	"crypto/x509"
	"crypto/x509/pkix"
	"encoding/pem"
	"fmt"
	abci "github.com/tendermint/tendermint/abci/types"
	"math/big"
	"sort"
	"time"

	sdk "github.com/cosmos/cosmos-sdk/types"
	sdkquery "github.com/cosmos/cosmos-sdk/types/query"

	ckeeper "github.com/ovrclk/akash/x/cert/keeper"
	ctypes "github.com/ovrclk/akash/x/cert/types"

	"verifsim/core"
)

// ---------------------------------------------------------------- C17 generator

var certSerials = func() []*big.Int {
	p := func(s string) *big.Int { v, _ := new(big.Int).SetString(s, 10); return v }
	two := big.NewInt(2)
	return []*big.Int{big.NewInt(1), big.NewInt(0), big.NewInt(255), big.NewInt(256), big.NewInt(257), big.NewInt(65536),
		new(big.Int).Exp(two, big.NewInt(64), nil), new(big.Int).Exp(two, big.NewInt(159), nil), p("12"), p("120"), big.NewInt(2),
		// word-size boundaries, and 8/10/16: "010" and "0x10" read in another base name a different certificate
		new(big.Int).Exp(two, big.NewInt(63), nil), p("18446744073709551615"), p("9223372036854775807"), p("4294967296"), p("2147483648"),
		big.NewInt(8), big.NewInt(10), big.NewInt(16)}
}()

type seedReader struct {
	state [32]byte
	buf   []byte
}

func (s *seedReader) Read(p []byte) (int, error) {
	for i := range p {
		if len(s.buf) == 0 {
			s.state = sha256.Sum256(s.state[:])
			s.buf = append([]byte{}, s.state[:]...)
		}
		p[i] = s.buf[0]
		s.buf = s.buf[1:]
	}
	return len(p), nil
}

// MakeCert builds a deterministic self-signed certificate (ed25519: signing is deterministic, so the
// transaction bytes - and with them gas use - are a function of the choices only).
func MakeCert(cn string, serial *big.Int, nonce int, notBefore, notAfter time.Time) (certPEM, pubPEM []byte, der []byte, priv ed25519.PrivateKey) {
	return MakeCertIssued(cn, cn, serial, nonce, notBefore, notAfter)
}

// MakeCertIssued: as MakeCert; when issuerCN differs from cn the certificate is not self-signed: it names
// cn as its subject and is issued (signed) by a key of issuerCN.
func MakeCertIssued(cn, issuerCN string, serial *big.Int, nonce int, notBefore, notAfter time.Time) (certPEM, pubPEM []byte, der []byte, priv ed25519.PrivateKey) {
	seed := sha256.Sum256([]byte(fmt.Sprintf("verif-cert-key|%s|%s|%d", cn, serial, nonce)))
	priv = ed25519.NewKeyFromSeed(seed[:])
	signer, parent := priv, (*x509.Certificate)(nil)
	if issuerCN != cn {
		iseed := sha256.Sum256([]byte(fmt.Sprintf("verif-issuer-key|%s", issuerCN)))
		signer = ed25519.NewKeyFromSeed(iseed[:])
		parent = &x509.Certificate{SerialNumber: big.NewInt(77), Subject: pkix.Name{CommonName: issuerCN}, KeyUsage: x509.KeyUsageCertSign, IsCA: true, BasicConstraintsValid: true}
	}
	tmpl := x509.Certificate{
		SerialNumber:          serial,
		Subject:               pkix.Name{CommonName: cn},
		Issuer:                pkix.Name{CommonName: cn},
		NotBefore:             notBefore,
		NotAfter:              notAfter,
		KeyUsage:              x509.KeyUsageDataEncipherment | x509.KeyUsageKeyEncipherment,
		ExtKeyUsage:           []x509.ExtKeyUsage{x509.ExtKeyUsageClientAuth},
		BasicConstraintsValid: true,
	}
	var err error
	if parent == nil {
		parent = &tmpl
	}
	der, err = x509.CreateCertificate(&seedReader{state: seed}, &tmpl, parent, priv.Public(), signer)
	if err != nil {
		panic(err)
	}
	certPEM = pem.EncodeToMemory(&pem.Block{Type: ctypes.PemBlkTypeCertificate, Bytes: der})
	pk, err := x509.MarshalPKIXPublicKey(priv.Public())
	if err != nil {
		panic(err)
	}
	pubPEM = pem.EncodeToMemory(&pem.Block{Type: ctypes.PemBlkTypeECPublicKey, Bytes: pk})
	return
}

func (g *gen) createCert() *Op {
	r := g.w.R
	owner := g.anyActor("cc.owner")
	cn := owner.Bech
	what := ""
	if r.Bool(8, "cc.cn-mismatch") {
		cn = g.anyActor("cc.cn").Bech
		if cn != owner.Bech {
			what = "CN!=owner "
		}
	}
	serial := certSerials[r.Choose(len(certSerials), "cc.serial")]
	g.vctr++
	// validity windows of every kind relative to block time and to any wall clock: the chain stores
	// certificates whatever their validity period is
	ends := []time.Time{g.w.Time.Add(365 * 24 * time.Hour), g.w.Time.Add(time.Minute), time.Date(2001, 1, 1, 0, 0, 0, 0, time.UTC),
		time.Date(2012, 6, 1, 0, 0, 0, 0, time.UTC), time.Date(2024, 1, 1, 0, 0, 0, 0, time.UTC), time.Date(2031, 1, 1, 0, 0, 0, 0, time.UTC), time.Date(2090, 1, 1, 0, 0, 0, 0, time.UTC)}
	notAfter := ends[r.Weighted([]int{6, 1, 1, 1, 1, 1, 1}, "cc.not-after")]
	notBefore := g.w.Time.Add(-time.Hour)
	if !notAfter.After(notBefore) {
		notBefore = notAfter.Add(-24 * time.Hour)
	}
	issuer := cn
	if r.Bool(10, "cc.issued-by-other") {
		// not self-signed: subject and issuer name different accounts; one of the two submits it
		other := g.anyActor("cc.issuer")
		if other.Bech != cn {
			if r.Bool(50, "cc.issuer-submits") {
				issuer, cn = owner.Bech, other.Bech
				what = "issued-by-the-submitter-but-names-" + other.Name + " "
			} else {
				issuer = other.Bech
				what += "issued-by-" + other.Name + " "
			}
		}
	}
	cert, pub, _, _ := MakeCertIssued(cn, issuer, serial, g.vctr, notBefore, notAfter)
	// somebody else's already registered certificate, submitted verbatim under the own name
	pctReplay := 8
	if v := g.bias["cert.replay-foreign"]; v > 0 {
		pctReplay = v
	}
	if ks := keysOf(g.s.Certs); len(ks) > 0 && r.Bool(pctReplay, "cc.replay-foreign") {
		rec := g.s.Certs[ks[r.Choose(len(ks), "cc.replay-which")]]
		if rec.Owner.String() != owner.Bech {
			cert, pub = rec.Cert.Cert, rec.Cert.Pubkey
			what = "replays-certificate-of-another-account "
		}
	}
	// malformed material: one or both fields carry a well-formed PEM block of the wrong type (two
	// independent reasons to refuse the message: the refusal itself must be the same everywhere)
	if k := r.Weighted([]int{90, 4, 3, 3}, "cc.malformed"); k > 0 {
		retype := func(b []byte, typ string) []byte {
			blk, _ := pem.Decode(b)
			if blk == nil {
				return b
			}
			return pem.EncodeToMemory(&pem.Block{Type: typ, Bytes: blk.Bytes})
		}
		if k == 1 || k == 3 {
			cert = retype(cert, "CERTIFICATE REQUEST")
		}
		if k == 2 || k == 3 {
			pub = retype(pub, "PUBLIC KEY")
		}
		what += []string{"", "cert-pem-type ", "pubkey-pem-type ", "cert+pubkey-pem-type "}[k]
	}
	msg := &ctypes.MsgCreateCertificate{Owner: owner.Bech, Cert: cert, Pubkey: pub}
	return &Op{Kind: "CreateCertificate", Msg: msg, Required: owner, Boundary: fmt.Sprintf("%sserial=%s", what, serial)}
}

func (g *gen) revokeCert() *Op {
	r := g.w.R
	var owner *Actor
	serial := certSerials[r.Choose(len(certSerials), "rc.serial")].String()
	ks := keysOf(g.s.Certs)
	if len(ks) > 0 && r.Bool(80, "rc.existing") {
		rec := g.s.Certs[ks[r.Choose(len(ks), "rc.which")]]
		owner = g.w.ActorByAddr(rec.Owner.String())
		serial = new(big.Int).SetBytes(rec.Serial).String()
	}
	if owner == nil {
		owner = g.anyActor("rc.owner")
	}
	// other spellings of a decimal number (serials travel as strings): zero-padded, signed, hexadecimal
	switch r.Weighted([]int{88, 5, 3, 2, 2}, "rc.spelling") {
	case 1:
		serial = "0" + serial
	case 2:
		serial = "+" + serial
	case 3:
		if v, ok := new(big.Int).SetString(serial, 10); ok {
			serial = "0x" + v.Text(16)
		}
	case 4:
		serial = "00" + serial
	}
	msg := &ctypes.MsgRevokeCertificate{ID: ctypes.CertificateID{Owner: owner.Bech, Serial: serial}}
	return &Op{Kind: "RevokeCertificate", Msg: msg, Required: owner}
}

// ---------------------------------------------------------------- C17 model + oracle

type certEntry struct {
	Owner  string
	Serial *big.Int
	State  ctypes.Certificate_State
	Cert   []byte
	Pub    []byte
}

type certModel struct {
	m map[string]*certEntry // owner|serial(decimal)
}

func newCertModel() *certModel { return &certModel{m: map[string]*certEntry{}} }

func ck(owner string, serial *big.Int) string { return owner + "|" + serial.String() }

func (cs *checkerSet) c17Tx(c *TxCtx) *core.Violation {
	r := cs.r
	mdl := cs.c17
	switch m := c.Op.Msg.(type) {
	case *ctypes.MsgCreateCertificate:
		blk, _ := pem.Decode(m.Cert)
		var x *x509.Certificate
		if blk != nil {
			x, _ = x509.ParseCertificate(blk.Bytes)
		}
		if x == nil {
			if c.OK {
				return r.Flag("C17/unparseable-cert-accepted", "certificate that does not parse was registered")
			}
			break
		}
		named := x.Subject.CommonName == m.Owner
		_, exists := mdl.m[ck(m.Owner, x.SerialNumber)]
		cs.c17Touched = append(cs.c17Touched, [2]string{m.Owner, x.SerialNumber.String()})
		if c.OK {
			if !named {
				return r.Flag("C17/registered-for-other-account", "certificate naming %s was registered by %s", x.Subject.CommonName, m.Owner)
			}
			if exists {
				return r.Flag("C17/duplicate-owner-serial", "second certificate registered for owner %s serial %s", c.W.ActorByAddr(m.Owner).Name, x.SerialNumber)
			}
			mdl.m[ck(m.Owner, x.SerialNumber)] = &certEntry{Owner: m.Owner, Serial: new(big.Int).Set(x.SerialNumber), State: ctypes.CertificateValid, Cert: m.Cert, Pub: m.Pubkey}
			r.Count("probe:cert-registered")
			if x.SerialNumber.Sign() == 0 {
				r.Count("probe:cert-serial-0")
			}
			if x.SerialNumber.BitLen() > 64 {
				r.Count("probe:cert-serial-wide")
			}
		} else if named && !exists {
			r.Count("probe:fresh-registration-rejected") // success is not demanded by the property; counted for the evidence
			// ... but the reason given must not be that the pair exists: uniqueness is per (owner, serial)
			if c.Res.Codespace == ctypes.ErrCertificateExists.Codespace() && c.Res.Code == ctypes.ErrCertificateExists.ABCICode() {
				return r.Flag("C17/distinct-serial-treated-as-duplicate", "%s registering serial %s (never registered by this owner) was refused with %q",
					c.W.ActorByAddr(m.Owner).Name, x.SerialNumber, c.Res.Log)
			}
		}
	case *ctypes.MsgRevokeCertificate:
		serial, okS := new(big.Int).SetString(m.ID.Serial, 10)
		if !okS {
			break
		}
		e := mdl.m[ck(m.ID.Owner, serial)]
		cs.c17Touched = append(cs.c17Touched, [2]string{m.ID.Owner, serial.String()})
		if c.OK {
			if e == nil {
				return r.Flag("C17/revoked-unknown", "revocation of unregistered certificate %s/%s succeeded", m.ID.Owner, m.ID.Serial)
			}
			if e.State != ctypes.CertificateValid {
				return r.Flag("C17/revoked-twice", "certificate %s revoked a second time", ck(m.ID.Owner, serial))
			}
			e.State = ctypes.CertificateRevoked
			r.Count("probe:cert-revoked")
		}
	}
	if v := cs.c17State(c.W, c.After, "after "+c.Op.Kind); v != nil {
		return v
	}
	// listings: a few queries after every certificate transaction, through the real gRPC querier
	if c.Op.Kind == "CreateCertificate" || c.Op.Kind == "RevokeCertificate" || r.Bool(10, "c17.query-anyway") {
		n := 1 + r.Choose(3, "c17.nqueries")
		for i := 0; i < n; i++ {
			if v := cs.c17Query(c.W); v != nil {
				return v
			}
		}
	}
	return nil
}

// store contents == model: nothing disappears, state only as the model says, bytes unchanged
func (cs *checkerSet) c17State(w *World, s *Snap, why string) *core.Violation {
	r := cs.r
	seen := map[string]bool{}
	for _, k := range keysOf(s.Certs) {
		rec := s.Certs[k]
		serial := new(big.Int).SetBytes(rec.Serial)
		key := ck(rec.Owner.String(), serial)
		seen[key] = true
		e := cs.c17.m[key]
		if e == nil {
			return r.Flag("C17/unknown-record", "%s: store holds certificate %s that was never registered", why, key)
		}
		if rec.Cert.State != e.State {
			return r.Flag("C17/state-mismatch", "%s: certificate %s is %s in the store, %s by history", why, key, rec.Cert.State, e.State)
		}
		if !bytes.Equal(rec.Cert.Cert, e.Cert) || !bytes.Equal(rec.Cert.Pubkey, e.Pub) {
			return r.Flag("C17/bytes-changed", "%s: certificate %s bytes differ from what was registered", why, key)
		}
	}
	for k := range cs.c17.m {
		if !seen[k] {
			return r.Flag("C17/certificate-removed", "%s: registered certificate %s is no longer stored", why, k)
		}
	}
	return nil
}

// c17Query issues one listing with drawn filter and paging and compares it with the model.
func (cs *checkerSet) c17Query(w *World) *core.Violation { return cs.c17QueryVia(w, false, "", "") }

// c17QueryVia: viaABCI=false asks a querier built over the store of the block in progress (uncommitted
// state included); viaABCI=true goes through the application's own query router on the committed state
// (ABCI Query, the path a client's gRPC request takes) - only meaningful right after a commit.  With
// owner and serial given the query is the point lookup of that pair.
func (cs *checkerSet) c17QueryVia(w *World, viaABCI bool, owner, serial string) (viol *core.Violation) {
	r := cs.r
	rep := w.Primary()
	q := ckeeper.NewKeeper(w.Cdc, rep.App.GetKey("cert")).Querier()
	ctx := w.Ctx(rep)
	ask := func(req *ctypes.QueryCertificatesRequest) (*ctypes.QueryCertificatesResponse, error) {
		if !viaABCI {
			return q.Certificates(sdk.WrapSDKContext(ctx), req)
		}
		bz, err := req.Marshal()
		if err != nil {
			panic(err)
		}
		res := rep.App.Query(abci.RequestQuery{Path: "/akash.cert.v1beta1.Query/Certificates", Data: bz})
		if res.Code != 0 {
			return nil, fmt.Errorf("query failed: %s/%d %s", res.Codespace, res.Code, res.Log)
		}
		out := &ctypes.QueryCertificatesResponse{}
		if err := out.Unmarshal(res.Value); err != nil {
			return nil, err
		}
		r.Count("probe:cert-queries-through-the-application")
		return out, nil
	}
	var f ctypes.CertificateFilter
	if owner != "" {
		f.Owner, f.Serial = owner, serial
	}
	switch r.Choose(3, "q.state") {
	case 1:
		f.State = "valid"
	case 2:
		f.State = "revoked"
	}
	ownerMode := r.Choose(3, "q.owner")
	if owner != "" {
		ownerMode = 0
	}
	if ownerMode > 0 {
		f.Owner = w.Actors[r.Choose(len(w.Actors), "q.owner.who")].Bech
		if ownerMode == 2 {
			f.Serial = certSerials[r.Choose(len(certSerials), "q.serial")].String()
		}
	}
	// expected: model filtered the same way, in key order (owner bytes, then serial big-endian bytes)
	var want []*certEntry
	for _, e := range cs.c17.m {
		if f.Owner != "" && e.Owner != f.Owner {
			continue
		}
		if f.Serial != "" && e.Serial.String() != f.Serial {
			continue
		}
		if f.State == "valid" && e.State != ctypes.CertificateValid {
			continue
		}
		if f.State == "revoked" && e.State != ctypes.CertificateRevoked {
			continue
		}
		want = append(want, e)
	}
	sort.Slice(want, func(i, j int) bool {
		a := append(mustAddr(want[i].Owner).Bytes(), want[i].Serial.Bytes()...)
		b := append(mustAddr(want[j].Owner).Bytes(), want[j].Serial.Bytes()...)
		return bytes.Compare(a, b) < 0
	})
	limit := uint64(1 + r.Choose(4, "q.limit"))
	if r.Bool(25, "q.biglimit") {
		limit = 100
	}
	useOffset := r.Bool(40, "q.offset")
	desc := fmt.Sprintf("filter{owner=%s serial=%q state=%q} limit=%d offset-paging=%v", nameOf(w, f.Owner), f.Serial, f.State, limit, useOffset)
	if viaABCI {
		desc += " (through the application's query router, committed state)"
	}
	var got []ctypes.CertificateResponse
	defer func() {
		if p := recover(); p != nil {
			viol = r.Flag("C17/listing-panicked", "listing %s panicked: %v", desc, p)
		}
	}()
	var next []byte
	offset := uint64(0)
	for page := 0; page < 200; page++ {
		req := &ctypes.QueryCertificatesRequest{Filter: f, Pagination: &sdkquery.PageRequest{Limit: limit}}
		if useOffset {
			req.Pagination.Offset = offset
		} else {
			req.Pagination.Key = next
		}
		res, err := ask(req)
		r.Count("probe:cert-list-queries")
		if err != nil {
			return r.Flag("C17/listing-failed", "listing %s failed: %v", desc, err)
		}
		got = append(got, res.Certificates...)
		if f.Serial != "" {
			break // point lookup: not paginated
		}
		if res.Pagination == nil || len(res.Pagination.NextKey) == 0 {
			break
		}
		if len(res.Certificates) == 0 {
			return r.Flag("C17/listing-empty-page", "listing %s returned an empty page with a next key", desc)
		}
		next = res.Pagination.NextKey
		offset += uint64(len(res.Certificates))
		if page > 0 {
			r.Count("probe:cert-list-multipage")
		}
	}
	if len(got) != len(want) {
		return r.Flag("C17/listing-wrong-set", "listing %s returned %d certificates, history says %d (%s)", desc, len(got), len(want), showWant(want))
	}
	for i := range got {
		if got[i].Serial != want[i].Serial.String() || got[i].Certificate.State != want[i].State || !bytes.Equal(got[i].Certificate.Cert, want[i].Cert) {
			return r.Flag("C17/listing-wrong-entry", "listing %s entry %d: serial=%s state=%s, expected serial=%s state=%s", desc, i,
				got[i].Serial, got[i].Certificate.State, want[i].Serial, want[i].State)
		}
	}
	return nil
}

func nameOf(w *World, bech string) string {
	if a := w.ActorByAddr(bech); a != nil {
		return a.Name
	}
	return bech
}

func showWant(w []*certEntry) string {
	s := ""
	for _, e := range w {
		s += fmt.Sprintf("[%s.. serial %s %s] ", e.Owner[len(e.Owner)-4:], e.Serial, e.State)
	}
	return s
}
