package chainsim

import "verifsim/core"

type certModel struct{}

func newCertModel() *certModel { return &certModel{} }

func (g *gen) createCert() *Op         { return g.bankSend() }
func (g *gen) revokeCert() *Op         { return g.bankSend() }
func (g *gen) boundaryDeployment() *Op { return g.createDeployment() }

func (cs *checkerSet) c06Tx(c *TxCtx) *core.Violation { return nil }
func (cs *checkerSet) c07Tx(c *TxCtx) *core.Violation { return nil }
func (cs *checkerSet) c08Tx(c *TxCtx) *core.Violation { return nil }
func (cs *checkerSet) c16Tx(c *TxCtx) *core.Violation { return nil }
func (cs *checkerSet) c17Tx(c *TxCtx) *core.Violation { return nil }
func (cs *checkerSet) c19Tx(c *TxCtx) *core.Violation { return nil }
func (cs *checkerSet) c19State(w *World, s *Snap, why string) *core.Violation { return nil }
func (cs *checkerSet) c17State(w *World, s *Snap, why string) *core.Violation { return nil }
