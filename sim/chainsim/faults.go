package chainsim

import (
	etypes "github.com/ovrclk/akash/x/escrow/types"
	dbm "github.com/tendermint/tm-db"
	"bytes"
	"encoding/json"
	"fmt"

	abci "github.com/tendermint/tendermint/abci/types"

	"github.com/ovrclk/akash/app"

	"verifsim/core"
)

func equalAkashState(a, b *Snap) string {
	for _, st := range AkashStores {
		am, bm := a.Raw[st], b.Raw[st]
		if len(am) != len(bm) {
			return fmt.Sprintf("store %s: %d vs %d keys", st, len(am), len(bm))
		}
		for k, v := range am {
			if !bytes.Equal(v, bm[k]) {
				return fmt.Sprintf("store %s: key %x differs", st, k)
			}
		}
	}
	for k, v := range a.Bank {
		if !v.Equal(b.Bank[k]) {
			return fmt.Sprintf("bank %s: %s vs %s", k, v, b.Bank[k])
		}
	}
	return ""
}

// crashRestart: the node dies before Commit of the current block.  Only the durable state (the
// MemDB behind the multistore) survives; a new app object is created over it, must show exactly the
// last committed state, and the block is delivered again.
func (w *World) crashRestart(r *core.Run, chk *checkerSet, L *Ledger) *core.Violation {
	r.Count("fault:crash-before-commit")
	which := 0
	if len(w.Reps) > 1 {
		which = r.Choose(len(w.Reps), "fault.crash.which")
	}
	rep := w.Reps[which]
	preCrash := w.TakeSnap(rep)
	blk := *w.curBlock
	// the process dies: drop the app object, keep the disk
	rep.App = newAppInv(rep.DB, rep.Inv)
	rep.InBlock = false
	if got := rep.App.LastBlockHeight(); got != blk.Height-1 {
		return r.Flag("crash/last-height", "after restart LastBlockHeight=%d want %d", got, blk.Height-1)
	}
	savedH := w.Height
	w.Height = blk.Height - 1
	restarted := w.TakeSnap(rep)
	w.Height = savedH
	if v := chk.Quiescent(w, restarted, nil, "restart"); v != nil {
		return v
	}
	if w.blockStart != nil {
		if d := equalAkashState(w.blockStart, restarted); d != "" {
			return r.Flag("crash/uncommitted-state-survived", "state after restart differs from last commit: %s", d)
		}
	}
	// re-deliver the block
	w.beginOn(rep, &blk)
	for _, txb := range blk.Txs {
		rep.App.DeliverTx(abci.RequestDeliverTx{Tx: txb})
	}
	redone := w.TakeSnap(rep)
	if d := equalAkashState(preCrash, redone); d != "" {
		return r.Flag("crash/redelivery-diverged", "re-delivering the block after restart gives a different state: %s", d)
	}
	hs := w.EndBlock()
	return chk.blockEnd(w, hs)
}

// exportImport: genesis export of the committed state in the middle of a history, checked with the
// modules' own ValidateGenesis.  (Importing and continuing on the imported application was dropped:
// x/market at this commit exports only its params - orders, bids and leases are not part of its
// genesis - so no listed property can be evaluated on an imported state; see DESIGN.md.)
func (w *World) exportImport(r *core.Run, chk *checkerSet, L *Ledger) (viol *core.Violation) {
	r.Count("fault:export-import")
	rep := w.Primary()
	before := w.TakeSnap(rep)
	exp, err := rep.App.ExportAppStateAndValidators(false, nil)
	if err != nil {
		return r.Flag("export/failed", "ExportAppStateAndValidators: %v", err)
	}
	var gs map[string]json.RawMessage
	if err := json.Unmarshal(exp.AppState, &gs); err != nil {
		panic(err)
	}
	for _, m := range AkashStores {
		mod := app.ModuleBasics()[m]
		if mod == nil {
			panic("no module basic for " + m)
		}
		if err := mod.ValidateGenesis(w.Cdc, w.TxCfg, gs[m]); err != nil {
			r.Count("export-validate-failed:" + m)
			if v := chk.exportInvalid(w, m, err); v != nil {
				return v
			}
		}
	}
	// what is exported must be what is stored (record by record, decoded independently from the raw store)
	if raw, ok := gs["escrow"]; ok {
		var eg etypes.GenesisState
		if err := w.Cdc.UnmarshalJSON(raw, &eg); err == nil {
			same := len(eg.Accounts) == len(before.Accounts) && len(eg.Payments) == len(before.Payments)
			diff := fmt.Sprintf("exported %d accounts / %d payments, stored %d / %d", len(eg.Accounts), len(eg.Payments), len(before.Accounts), len(before.Payments))
			for i := range eg.Accounts {
				a := eg.Accounts[i]
				st, ok := before.Accounts[acctKey(a.ID)]
				if !ok || !bytes.Equal(w.Cdc.MustMarshalJSON(&a), w.Cdc.MustMarshalJSON(&st)) {
					same, diff = false, fmt.Sprintf("account %s exported as %s, stored as %s", acctKey(a.ID), w.Cdc.MustMarshalJSON(&a), w.Cdc.MustMarshalJSON(&st))
					break
				}
			}
			for i := range eg.Payments {
				p := eg.Payments[i]
				k := acctKey(p.AccountID) + "/" + p.PaymentID
				st, ok := before.Payments[k]
				if !ok || !bytes.Equal(w.Cdc.MustMarshalJSON(&p), w.Cdc.MustMarshalJSON(&st)) {
					same, diff = false, fmt.Sprintf("payment %s exported as %s, stored as %s", k, w.Cdc.MustMarshalJSON(&p), w.Cdc.MustMarshalJSON(&st))
					break
				}
			}
			if !same {
				r.Count("export-differs-from-state:escrow")
				if v := chk.importChanged(w, "escrow", diff); v != nil {
					return v
				}
			}
		}
	}
	// import: a fresh application is booted from the exported state (a chain restarted from an export)
	// and exports again - what a module stores must survive the round trip unchanged
	var imported map[string]json.RawMessage
	func() {
		defer func() {
			if p := recover(); p != nil {
				r.Count("import-failed")
				r.Logf("h=%d import of the exported state failed: %v", w.Height, p)
			}
		}()
		db := dbm.NewMemDB()
		a := newApp(db)
		a.InitChain(abci.RequestInitChain{ChainId: ChainID, Time: w.Time, ConsensusParams: consensusParams(), Validators: []abci.ValidatorUpdate{},
			AppStateBytes: exp.AppState, InitialHeight: exp.Height})
		a.Commit()
		exp2, err := a.ExportAppStateAndValidators(false, nil)
		if err != nil {
			panic(err)
		}
		if err := json.Unmarshal(exp2.AppState, &imported); err != nil {
			panic(err)
		}
	}()
	if imported != nil {
		r.Count("probe:export-import-roundtrip")
		for _, m := range AkashStores {
			if !bytes.Equal(gs[m], imported[m]) {
				r.Count("import-changed:" + m)
				if v := chk.importChanged(w, m, firstDiff(gs[m], imported[m])); v != nil {
					return v
				}
			}
		}
	}
	return nil
}

func firstDiff(a, b []byte) string {
	i := 0
	for i < len(a) && i < len(b) && a[i] == b[i] {
		i++
	}
	lo := i - 60
	if lo < 0 {
		lo = 0
	}
	cut := func(x []byte) string {
		hi := i + 60
		if hi > len(x) {
			hi = len(x)
		}
		if lo > len(x) {
			return ""
		}
		return string(x[lo:hi])
	}
	return fmt.Sprintf("exported ...%s... re-exported after import ...%s...", cut(a), cut(b))
}
