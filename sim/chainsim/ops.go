package chainsim

import (
	"crypto/sha256"
	"fmt"
	"strings"

	sdk "github.com/cosmos/cosmos-sdk/types"
	banktypes "github.com/cosmos/cosmos-sdk/x/bank/types"

	"github.com/ovrclk/akash/types"
	"github.com/ovrclk/akash/types/unit"
	atypes "github.com/ovrclk/akash/x/audit/types"
	dtypes "github.com/ovrclk/akash/x/deployment/types"
	mtypes "github.com/ovrclk/akash/x/market/types"
	ptypes "github.com/ovrclk/akash/x/provider/types"
)

// Op is one generated transaction: a message, the party the protocol assigns to it and the key
// that actually signs it.
type Op struct {
	Kind     string
	Msg      sdk.Msg
	Required *Actor
	Signer   *Actor
	Gas      uint64
	Wrong    bool // signed with a key other than the required one
	LowGas   bool
	Boundary string // C19: which bound this create-deployment probes
	// Tail is a second message of the same signer that is certain to fail: the transaction as a whole
	// must then be rejected and the first message's effects rolled back (failing sub-step fault)
	Tail sdk.Msg
}

var collidingDSeq = []uint64{1, 12, 256, 257, 65536, 65537, 1 << 32, 1<<32 + 1, 2, 120, 3, 1 << 63, 1<<64 - 1, 1<<63 - 1}

// the last two differ from others only in the case of the key (used when attrs.case-variants is set);
// an empty value is legal on chain (only keys are validated)
var attrUniverse = []types.Attribute{{Key: "region", Value: "us"}, {Key: "region", Value: "eu"}, {Key: "tier", Value: "gold"}, {Key: "gpu", Value: "yes"},
	{Key: "gpu", Value: ""}, {Key: "Region", Value: "us"}, {Key: "TIER", Value: "gold"}}

type gen struct {
	w    *World
	s    *Snap
	bias map[string]int
	vctr int
	// busy-provider mode (drawn per run where the bias table has "busy"): one provider collects several
	// active leases at a time - deployments, its bids and leases are favoured, closing is rare
	busy *Actor
	// spread mode (the opposite): the groups of a deployment are let to different providers, so that one
	// escrow account pays several payees
	spread bool
}

func (g *gen) pick(list []string, label string) (string, bool) {
	if len(list) == 0 {
		return "", false
	}
	return list[g.w.R.Choose(len(list), label)], true
}

func (g *gen) actor(role string, label string) *Actor {
	l := g.w.ActorsOf(role)
	if len(l) == 0 {
		return nil
	}
	return l[g.w.R.Choose(len(l), label)]
}

func (g *gen) anyActor(label string) *Actor {
	return g.w.Actors[g.w.R.Choose(len(g.w.Actors), label)]
}

func (g *gen) attrs(label string) types.Attributes {
	r := g.w.R
	var out types.Attributes
	seen := map[string]bool{}
	n := r.Choose(4, label+".n")
	for i := 0; i < n; i++ {
		nU := 5
		if g.bias["attrs.case-variants"] > 0 {
			nU = len(attrUniverse)
		}
		a := attrUniverse[r.Choose(nU, label+".a")]
		if seen[a.Key] {
			continue
		}
		seen[a.Key] = true
		out = append(out, a)
	}
	return out
}

// richAttrs: most keys present (providers, attestations) so that requirements are often covered
func (g *gen) richAttrs(label string) types.Attributes {
	r := g.w.R
	var out types.Attributes
	keys := []string{"region", "tier", "gpu"}
	if g.bias["attrs.case-variants"] > 0 {
		keys = append(keys, "Region", "TIER")
	}
	for _, k := range keys {
		if !r.Bool(70, label+".has") {
			continue
		}
		var cands []types.Attribute
		for _, a := range attrUniverse {
			if a.Key == k {
				cands = append(cands, a)
			}
		}
		out = append(out, cands[r.Choose(len(cands), label+".v")])
	}
	// a message may list its attributes in any order
	if len(out) > 1 && r.Bool(50, label+".shuffle") {
		perm := r.Permute(len(out), label+".order")
		sh := make(types.Attributes, len(out))
		for i, j := range perm {
			sh[i] = out[j]
		}
		out = sh
	}
	return out
}

func (g *gen) version() []byte {
	g.vctr++
	h := sha256.Sum256([]byte(fmt.Sprintf("version-%d-%d", g.w.Height, g.vctr)))
	return h[:]
}

func (g *gen) resourceUnits(cpu uint64, mem, sto uint64) types.ResourceUnits {
	return types.ResourceUnits{
		CPU:     &types.CPU{Units: types.NewResourceValue(cpu)},
		Memory:  &types.Memory{Quantity: types.NewResourceValue(mem)},
		Storage: &types.Storage{Quantity: types.NewResourceValue(sto)},
	}
}

var unitPrices = []int64{1, 2, 3, 5, 7, 10, 1000, 10000000}

func (g *gen) groupSpec(name string) dtypes.GroupSpec {
	r := g.w.R
	gs := dtypes.GroupSpec{Name: name}
	if r.Bool(45+g.bias["grp.hasreq"], "grp.hasreq") {
		gs.Requirements.Attributes = g.attrs("grp.req")
	}
	auds := g.w.ActorsOf("auditor")
	if len(auds) > 0 && r.Bool(35+g.bias["grp.signed"], "grp.signed") {
		for _, a := range auds {
			switch r.Choose(4, "grp.signedby") {
			case 1:
				gs.Requirements.SignedBy.AllOf = append(gs.Requirements.SignedBy.AllOf, a.Bech)
			case 2:
				gs.Requirements.SignedBy.AnyOf = append(gs.Requirements.SignedBy.AnyOf, a.Bech)
			case 3:
				gs.Requirements.SignedBy.AllOf = append(gs.Requirements.SignedBy.AllOf, a.Bech)
				gs.Requirements.SignedBy.AnyOf = append(gs.Requirements.SignedBy.AnyOf, a.Bech)
			}
		}
		if r.Bool(10, "grp.signedby.unknown") {
			gs.Requirements.SignedBy.AnyOf = append(gs.Requirements.SignedBy.AnyOf, g.w.ActorsOf("bystander")[0].Bech)
		}
	}
	nres := 1 + r.Choose(2, "grp.nres")
	for i := 0; i < nres; i++ {
		gs.Resources = append(gs.Resources, dtypes.Resource{
			Resources: g.resourceUnits(100, 16*unit.Mi, 64*unit.Mi),
			Count:     uint32(1 + r.Choose(3, "grp.count")),
			Price:     sdk.NewInt64Coin(Denom, unitPrices[r.Choose(len(unitPrices)-1, "grp.price")]),
		})
	}
	return gs
}

func (g *gen) dseqFor(owner string, wantExisting bool) uint64 {
	r := g.w.R
	if wantExisting {
		var mine []uint64
		for _, k := range keysOf(g.s.Deployments) {
			d := g.s.Deployments[k]
			if d.DeploymentID.Owner == owner {
				mine = append(mine, d.DeploymentID.DSeq)
			}
		}
		if len(mine) > 0 {
			return mine[r.Choose(len(mine), "dseq.existing")]
		}
	}
	if g.bias["dseq.prefix-family"] > 0 && r.Bool(g.bias["dseq.prefix-family"], "dseq.family") {
		fam := []uint64{1, 12, 120, 1200, 256, 65536}
		return fam[r.Choose(len(fam), "dseq.family.v")]
	}
	return collidingDSeq[r.Choose(len(collidingDSeq), "dseq")]
}

func (g *gen) deposit(min int64, label string) sdk.Coin {
	r := g.w.R
	switch r.Weighted([]int{8, 3, 2, 2, 1, 1}, label) {
	case 0:
		return sdk.NewInt64Coin(Denom, min)
	case 1:
		return sdk.NewInt64Coin(Denom, min+int64(1+r.Choose(12, label+".extra")))
	case 2:
		return sdk.NewInt64Coin(Denom, min*2+3)
	case 3:
		return sdk.NewInt64Coin(Denom, min*10)
	case 4:
		if min > 1 {
			return sdk.NewInt64Coin(Denom, min-1)
		}
		return sdk.NewInt64Coin(Denom, min)
	default:
		return sdk.NewInt64Coin("xyz", min)
	}
}

func (g *gen) createDeployment() *Op {
	r := g.w.R
	t := g.actor("tenant", "cd.tenant")
	id := dtypes.DeploymentID{Owner: t.Bech, DSeq: g.dseqFor(t.Bech, r.Bool(8, "cd.dup"))}
	ngw := []int{6, 3, 1}
	if g.busy != nil || g.bias["cd.multigroup"] > 0 {
		ngw = []int{3, 4, 3} // several groups per deployment: several payments on one escrow account
	}
	ng := 1 + r.Weighted(ngw, "cd.ngroups")
	var groups []dtypes.GroupSpec
	for i := 0; i < ng; i++ {
		groups = append(groups, g.groupSpec(fmt.Sprintf("g%d", i)))
	}
	msg := dtypes.NewMsgCreateDeployment(id, groups, g.version(), g.deposit(g.w.Knobs.DeploymentMinDeposit, "cd.deposit"))
	return &Op{Kind: "CreateDeployment", Msg: msg, Required: t}
}

// target selection helpers: 70% an existing object in a state where the op is meaningful, else any
// existing object, else an arbitrary id.
func (g *gen) pickDeployment(pred func(dtypes.Deployment) bool, label string) dtypes.DeploymentID {
	r := g.w.R
	var good, all []string
	for _, k := range keysOf(g.s.Deployments) {
		all = append(all, k)
		if pred(g.s.Deployments[k]) {
			good = append(good, k)
		}
	}
	mode := r.Weighted([]int{70, 20, 10}, label+".mode")
	if mode == 0 && len(good) > 0 {
		return g.s.Deployments[good[r.Choose(len(good), label)]].DeploymentID
	}
	if mode <= 1 && len(all) > 0 {
		return g.s.Deployments[all[r.Choose(len(all), label)]].DeploymentID
	}
	t := g.actor("tenant", label+".tenant")
	return dtypes.DeploymentID{Owner: t.Bech, DSeq: collidingDSeq[r.Choose(len(collidingDSeq), label+".dseq")]}
}

func (g *gen) pickGroup(pred func(dtypes.Group) bool, label string) dtypes.GroupID {
	r := g.w.R
	var good, all []string
	for _, k := range keysOf(g.s.Groups) {
		all = append(all, k)
		if pred(g.s.Groups[k]) {
			good = append(good, k)
		}
	}
	mode := r.Weighted([]int{70, 20, 10}, label+".mode")
	if mode == 0 && len(good) > 0 {
		return g.s.Groups[good[r.Choose(len(good), label)]].GroupID
	}
	if mode <= 1 && len(all) > 0 {
		return g.s.Groups[all[r.Choose(len(all), label)]].GroupID
	}
	d := g.pickDeployment(func(dtypes.Deployment) bool { return true }, label+".dep")
	return dtypes.GroupID{Owner: d.Owner, DSeq: d.DSeq, GSeq: uint32(1 + r.Choose(3, label+".gseq"))}
}

func (g *gen) pickOrder(pred func(mtypes.Order) bool, label string) mtypes.OrderID {
	r := g.w.R
	var good, all []string
	for _, k := range keysOf(g.s.Orders) {
		all = append(all, k)
		if pred(g.s.Orders[k]) {
			good = append(good, k)
		}
	}
	mode := r.Weighted([]int{75, 15, 10}, label+".mode")
	if mode == 0 && len(good) > 0 {
		return g.s.Orders[good[r.Choose(len(good), label)]].OrderID
	}
	if mode <= 1 && len(all) > 0 {
		return g.s.Orders[all[r.Choose(len(all), label)]].OrderID
	}
	gi := g.pickGroup(func(dtypes.Group) bool { return true }, label+".grp")
	return mtypes.OrderID{Owner: gi.Owner, DSeq: gi.DSeq, GSeq: gi.GSeq, OSeq: uint32(1 + r.Choose(3, label+".oseq"))}
}

func (g *gen) pickBid(pred func(mtypes.Bid) bool, label string) mtypes.BidID {
	r := g.w.R
	var good, all []string
	for _, k := range keysOf(g.s.Bids) {
		all = append(all, k)
		if pred(g.s.Bids[k]) {
			good = append(good, k)
		}
	}
	mode := r.Weighted([]int{75, 15, 10}, label+".mode")
	if mode == 0 && len(good) > 0 {
		return g.s.Bids[good[r.Choose(len(good), label)]].BidID
	}
	if mode <= 1 && len(all) > 0 {
		return g.s.Bids[all[r.Choose(len(all), label)]].BidID
	}
	o := g.pickOrder(func(mtypes.Order) bool { return true }, label+".ord")
	p := g.actor("provider", label+".prov")
	return mtypes.MakeBidID(o, p.Addr)
}

func (g *gen) depositDeployment() *Op {
	r := g.w.R
	id := g.pickDeployment(func(d dtypes.Deployment) bool { return d.State == dtypes.DeploymentActive }, "dd")
	amts := []int64{1, 2, 5, 13, g.w.Knobs.DeploymentMinDeposit, 1000000}
	amt := sdk.NewInt64Coin(Denom, amts[r.Choose(len(amts), "dd.amt")])
	if r.Bool(4, "dd.denom") {
		amt = sdk.NewInt64Coin("xyz", 5)
	}
	return &Op{Kind: "DepositDeployment", Msg: dtypes.NewMsgDepositDeployment(id, amt), Required: g.w.ActorByAddr(id.Owner)}
}

func (g *gen) updateDeployment() *Op {
	id := g.pickDeployment(func(d dtypes.Deployment) bool { return d.State == dtypes.DeploymentActive }, "ud")
	v := g.version()
	if d, ok := g.s.Deployments[did(id)]; ok && g.w.R.Bool(15, "ud.same") {
		v = d.Version
	}
	return &Op{Kind: "UpdateDeployment", Msg: dtypes.NewMsgUpdateDeployment(id, nil, v), Required: g.w.ActorByAddr(id.Owner)}
}

func (g *gen) closeDeployment() *Op {
	id := g.pickDeployment(func(d dtypes.Deployment) bool { return d.State == dtypes.DeploymentActive }, "cld")
	return &Op{Kind: "CloseDeployment", Msg: dtypes.NewMsgCloseDeployment(id), Required: g.w.ActorByAddr(id.Owner)}
}

func (g *gen) closeGroup() *Op {
	id := g.pickGroup(func(x dtypes.Group) bool { return x.State != dtypes.GroupClosed }, "cg")
	return &Op{Kind: "CloseGroup", Msg: dtypes.NewMsgCloseGroup(id), Required: g.w.ActorByAddr(id.Owner)}
}

func (g *gen) pauseGroup() *Op {
	id := g.pickGroup(func(x dtypes.Group) bool { return x.State == dtypes.GroupOpen }, "pg")
	return &Op{Kind: "PauseGroup", Msg: dtypes.NewMsgPauseGroup(id), Required: g.w.ActorByAddr(id.Owner)}
}

func (g *gen) startGroup() *Op {
	id := g.pickGroup(func(x dtypes.Group) bool {
		return x.State == dtypes.GroupPaused || x.State == dtypes.GroupInsufficientFunds
	}, "sg")
	return &Op{Kind: "StartGroup", Msg: dtypes.NewMsgStartGroup(id), Required: g.w.ActorByAddr(id.Owner)}
}

func (g *gen) createBid() *Op {
	r := g.w.R
	o := g.pickOrder(func(x mtypes.Order) bool { return x.State == mtypes.OrderOpen }, "cb")
	var p *Actor
	if g.busy != nil && r.Bool(75, "cb.busy") {
		p = g.busy
	}
	selfbid := false
	if r.Bool(4+g.bias["cb.selfbid"], "cb.selfbid") {
		p = g.w.ActorByAddr(o.Owner)
		selfbid = p != nil
	}
	if p == nil && g.spread {
		// a provider that holds no bid or lease in this deployment yet
		taken := map[string]bool{}
		for _, b := range g.s.Bids {
			if b.BidID.Owner == o.Owner && b.BidID.DSeq == o.DSeq && (b.State == mtypes.BidOpen || b.State == mtypes.BidActive) {
				taken[b.BidID.Provider] = true
			}
		}
		var free []*Actor
		for _, a := range g.w.ActorsOf("provider") {
			if !taken[a.Bech] {
				free = append(free, a)
			}
		}
		if len(free) > 0 {
			p = free[r.Choose(len(free), "cb.spread")]
		}
	}
	if p == nil {
		p = g.actor("provider", "cb.prov")
	}
	if p == g.busy && p.Bech == o.Owner {
		p = g.actor("provider", "cb.prov")
	}
	max := int64(10)
	if ord, ok := g.s.Orders[oid(o)]; ok {
		pr := ord.Price()
		if pr.Amount.IsInt64() {
			max = pr.Amount.Int64()
		}
	}
	var price sdk.Coin
	switch r.Weighted([]int{40, 25, 15, 8, 4, 4, 4}, "cb.price") {
	case 0:
		price = sdk.NewInt64Coin(Denom, max)
	case 1:
		price = sdk.NewInt64Coin(Denom, 1+int64(r.Choose(int(minI64(max, 50)), "cb.price.v")))
	case 2:
		price = sdk.NewInt64Coin(Denom, 1)
	case 3:
		price = sdk.NewInt64Coin(Denom, max+1)
	case 4:
		price = sdk.NewInt64Coin(Denom, 0)
	case 5:
		price = sdk.NewInt64Coin("xyz", 1)
	default:
		price = sdk.NewInt64Coin(Denom, max*3+1)
	}
	msg := mtypes.NewMsgCreateBid(o, p.Addr, price, g.deposit(g.w.Knobs.BidMinDeposit, "cb.deposit"))
	if selfbid && r.Bool(50, "cb.selfbid.uppercase") {
		// the same account in the other legal spelling of its address
		msg.Provider = strings.ToUpper(msg.Provider)
	}
	return &Op{Kind: "CreateBid", Msg: msg, Required: p}
}

func minI64(a, b int64) int64 {
	if a < b {
		return a
	}
	return b
}

func (g *gen) closeBid() *Op {
	// a losing bidder closing its lost bid while the winner's lease is active
	if g.w.R.Bool(10+g.bias["clb.lost"], "clb.lost") {
		var lost []string
		for _, k := range keysOf(g.s.Bids) {
			if b := g.s.Bids[k]; b.State == mtypes.BidLost {
				lost = append(lost, k)
			}
		}
		if len(lost) > 0 {
			id := g.s.Bids[lost[g.w.R.Choose(len(lost), "clb.lost.which")]].BidID
			return &Op{Kind: "CloseBid", Msg: mtypes.NewMsgCloseBid(id), Required: g.w.ActorByAddr(id.Provider)}
		}
	}
	id := g.pickBid(func(x mtypes.Bid) bool { return x.State == mtypes.BidOpen || x.State == mtypes.BidActive }, "clb")
	return &Op{Kind: "CloseBid", Msg: mtypes.NewMsgCloseBid(id), Required: g.w.ActorByAddr(id.Provider)}
}

func (g *gen) createLease() *Op {
	// a bid its provider withdrew while the order stayed open
	if g.w.R.Bool(6+g.bias["cl.withdrawn"], "cl.withdrawn") {
		var cands []string
		for _, k := range keysOf(g.s.Bids) {
			b := g.s.Bids[k]
			if o, ok := g.s.Orders[oid(b.BidID.OrderID())]; ok && b.State == mtypes.BidClosed && o.State == mtypes.OrderOpen {
				cands = append(cands, k)
			}
		}
		if len(cands) > 0 {
			id := g.s.Bids[cands[g.w.R.Choose(len(cands), "cl.withdrawn.which")]].BidID
			return &Op{Kind: "CreateLease", Msg: mtypes.NewMsgCreateLease(id), Required: g.w.ActorByAddr(id.Owner)}
		}
	}
	id := g.pickBid(func(x mtypes.Bid) bool { return x.State == mtypes.BidOpen }, "cl")
	return &Op{Kind: "CreateLease", Msg: mtypes.NewMsgCreateLease(id), Required: g.w.ActorByAddr(id.Owner)}
}

func (g *gen) withdrawLease() *Op {
	id := g.pickBid(func(x mtypes.Bid) bool { return x.State == mtypes.BidActive }, "wl")
	return &Op{Kind: "WithdrawLease", Msg: mtypes.NewMsgWithdrawLease(mtypes.LeaseID(id)), Required: g.w.ActorByAddr(id.Provider)}
}

func (g *gen) closeLease() *Op {
	id := g.pickBid(func(x mtypes.Bid) bool { return x.State == mtypes.BidActive }, "cll")
	return &Op{Kind: "CloseLease", Msg: mtypes.NewMsgCloseLease(mtypes.LeaseID(id)), Required: g.w.ActorByAddr(id.Owner)}
}

func (g *gen) createProvider() *Op {
	r := g.w.R
	// prefer an unregistered provider
	var p *Actor
	for _, a := range g.w.ActorsOf("provider") {
		if _, ok := g.s.Providers[a.Bech]; !ok {
			p = a
			break
		}
	}
	if p == nil || r.Bool(10+g.bias["cp.any"], "cp.any") {
		p = g.anyActor("cp.actor")
	}
	msg := ptypes.NewMsgCreateProvider(p.Addr, "https://"+p.Name+".example.com", g.richAttrs("cp.attrs"))
	if r.Bool(3, "cp.baduri") {
		msg.HostURI = "http://insecure"
	}
	return &Op{Kind: "CreateProvider", Msg: msg, Required: p}
}

func (g *gen) updateProvider() *Op {
	r := g.w.R
	p := g.actor("provider", "up.prov")
	if r.Bool(8, "up.any") {
		p = g.anyActor("up.actor")
	}
	attrs := g.richAttrs("up.attrs")
	if r.Bool(g.bias["up.busiest"], "up.busiest") {
		// the provider with the most active leases gives up one attribute that some (not necessarily
		// every) leased order asks for
		n := map[string]int{}
		for _, l := range g.s.Leases {
			if l.State == mtypes.LeaseActive {
				n[l.LeaseID.Provider]++
			}
		}
		best := ""
		for _, k := range keysOf(n) {
			if best == "" || n[k] > n[best] {
				best = k
			}
		}
		if a := g.w.ActorByAddr(best); a != nil {
			p = a
			if cur, ok := g.s.Providers[best]; ok {
				var needed []string
				seen := map[string]bool{}
				for _, k := range keysOf(g.s.Leases) {
					l := g.s.Leases[k]
					if l.State != mtypes.LeaseActive || l.LeaseID.Provider != best {
						continue
					}
					if o, ok := g.s.Orders[oid(l.LeaseID.OrderID())]; ok {
						for _, ra := range o.Spec.Requirements.Attributes {
							if !seen[ra.Key] {
								seen[ra.Key] = true
								needed = append(needed, ra.Key)
							}
						}
					}
				}
				if len(needed) > 0 {
					drop := needed[r.Choose(len(needed), "up.drop")]
					attrs = nil
					for _, a := range cur.Attributes {
						if a.Key != drop {
							attrs = append(attrs, a)
						}
					}
				}
			}
		}
	}
	msg := ptypes.NewMsgUpdateProvider(p.Addr, "https://"+p.Name+".example.org", attrs)
	return &Op{Kind: "UpdateProvider", Msg: msg, Required: p}
}

func (g *gen) signAttrs() *Op {
	a := g.actor("auditor", "sa.aud")
	if a == nil || g.w.R.Bool(5, "sa.any") {
		a = g.anyActor("sa.actor")
	}
	p := g.actor("provider", "sa.prov")
	attrs := g.richAttrs("sa.attrs")
	// a correcting re-signature: an auditor changes the value of a key it attested earlier, possibly
	// together with keys that are new to the record, in any order
	if ks := keysOf(g.s.Attest); len(ks) > 0 && g.w.R.Bool(g.bias["sa.resign"], "sa.resign") {
		rec := g.s.Attest[ks[g.w.R.Choose(len(ks), "sa.resign.which")]]
		if au, pr := g.w.ActorByAddr(rec.Auditor), g.w.ActorByAddr(rec.Owner); au != nil && pr != nil && len(rec.Attributes) > 0 {
			a, p = au, pr
			old := rec.Attributes[g.w.R.Choose(len(rec.Attributes), "sa.resign.key")]
			have := map[string]bool{}
			for _, x := range rec.Attributes {
				have[x.Key] = true
			}
			attrs = nil
			for _, x := range attrUniverse {
				if !have[x.Key] && g.w.R.Bool(35, "sa.resign.new") {
					attrs = append(attrs, x)
					have[x.Key] = true
				}
			}
			changed := types.Attribute{Key: old.Key, Value: old.Value + "-2"}
			for _, x := range attrUniverse {
				if x.Key == old.Key && x.Value != old.Value {
					changed = x
				}
			}
			pos := g.w.R.Choose(len(attrs)+1, "sa.resign.pos")
			attrs = append(attrs[:pos], append(types.Attributes{changed}, attrs[pos:]...)...)
		}
	}
	msg := &atypes.MsgSignProviderAttributes{Owner: p.Bech, Auditor: a.Bech, Attributes: attrs}
	return &Op{Kind: "SignProviderAttributes", Msg: msg, Required: a}
}

func (g *gen) deleteAttrs() *Op {
	r := g.w.R
	a := g.actor("auditor", "da.aud")
	if a == nil || r.Bool(5, "da.any") {
		a = g.anyActor("da.actor")
	}
	p := g.actor("provider", "da.prov")
	var keys []string
	if rec, ok := g.s.Attest[p.Bech+"|"+a.Bech]; ok && r.Bool(70, "da.some") {
		for _, at := range rec.Attributes {
			if r.Bool(50, "da.key") {
				keys = append(keys, at.Key)
			}
		}
	} else if r.Bool(20, "da.bogus") {
		keys = []string{"nosuchkey"}
	}
	msg := &atypes.MsgDeleteProviderAttributes{Owner: p.Bech, Auditor: a.Bech, Keys: keys}
	return &Op{Kind: "DeleteProviderAttributes", Msg: msg, Required: a}
}

func (g *gen) bankSend() *Op {
	r := g.w.R
	from := g.anyActor("bs.from")
	to := g.anyActor("bs.to").Bech
	if r.Bool(40, "bs.toescrow") {
		to = g.w.EscrowMA
	}
	msg := &banktypes.MsgSend{FromAddress: from.Bech, ToAddress: to, Amount: sdk.NewCoins(sdk.NewInt64Coin(Denom, int64(1+r.Choose(20, "bs.amt"))))}
	return &Op{Kind: "BankSend", Msg: msg, Required: from}
}

// failingTail builds a message the required signer of op may sign and that cannot succeed.
func (g *gen) failingTail(op *Op) sdk.Msg {
	a := op.Required
	switch op.Msg.(type) {
	case *mtypes.MsgCreateBid, *mtypes.MsgCloseBid, *mtypes.MsgWithdrawLease, *ptypes.MsgCreateProvider, *ptypes.MsgUpdateProvider:
		// provider-signed: close a bid that does not exist
		oid := mtypes.OrderID{Owner: g.w.ActorsOf("bystander")[0].Bech, DSeq: 987654321, GSeq: 1, OSeq: 1}
		return mtypes.NewMsgCloseBid(mtypes.MakeBidID(oid, a.Addr))
	case *atypes.MsgSignProviderAttributes, *atypes.MsgDeleteProviderAttributes:
		return &atypes.MsgDeleteProviderAttributes{Owner: g.w.ActorsOf("bystander")[0].Bech, Auditor: a.Bech, Keys: []string{"nosuchkey"}}
	default:
		// tenant / owner signed: close a deployment that does not exist
		return dtypes.NewMsgCloseDeployment(dtypes.DeploymentID{Owner: a.Bech, DSeq: 987654321})
	}
}

// kinds in a fixed order (weights are looked up by name).
var opKinds = []string{"CreateDeployment", "DepositDeployment", "UpdateDeployment", "CloseDeployment", "CloseGroup", "PauseGroup",
	"StartGroup", "CreateBid", "CloseBid", "CreateLease", "WithdrawLease", "CloseLease", "CreateProvider", "UpdateProvider",
	"SignProviderAttributes", "DeleteProviderAttributes", "BankSend", "CreateCertificate", "RevokeCertificate", "BoundaryDeployment"}

func (g *gen) build(kind string) *Op {
	switch kind {
	case "CreateDeployment":
		return g.createDeployment()
	case "DepositDeployment":
		return g.depositDeployment()
	case "UpdateDeployment":
		return g.updateDeployment()
	case "CloseDeployment":
		return g.closeDeployment()
	case "CloseGroup":
		return g.closeGroup()
	case "PauseGroup":
		return g.pauseGroup()
	case "StartGroup":
		return g.startGroup()
	case "CreateBid":
		return g.createBid()
	case "CloseBid":
		return g.closeBid()
	case "CreateLease":
		return g.createLease()
	case "WithdrawLease":
		return g.withdrawLease()
	case "CloseLease":
		return g.closeLease()
	case "CreateProvider":
		return g.createProvider()
	case "UpdateProvider":
		return g.updateProvider()
	case "SignProviderAttributes":
		return g.signAttrs()
	case "DeleteProviderAttributes":
		return g.deleteAttrs()
	case "BankSend":
		return g.bankSend()
	case "CreateCertificate":
		return g.createCert()
	case "RevokeCertificate":
		return g.revokeCert()
	case "BoundaryDeployment":
		return g.boundaryDeployment()
	}
	panic("unknown op kind " + kind)
}

// weights computes state-aware weights: an op whose natural target does not exist gets a small weight.
func (g *gen) weights(base map[string]int) []int {
	s := g.s
	cnt := func(f func() int) int { return f() }
	nDepActive := cnt(func() int {
		n := 0
		for _, d := range s.Deployments {
			if d.State == dtypes.DeploymentActive {
				n++
			}
		}
		return n
	})
	nOrdOpen, nBidOpen, nBidActive := 0, 0, 0
	for _, o := range s.Orders {
		if o.State == mtypes.OrderOpen {
			nOrdOpen++
		}
	}
	for _, b := range s.Bids {
		switch b.State {
		case mtypes.BidOpen:
			nBidOpen++
		case mtypes.BidActive:
			nBidActive++
		}
	}
	nGrpOpen, nGrpStartable := 0, 0
	for _, x := range s.Groups {
		if x.State == dtypes.GroupOpen {
			nGrpOpen++
		}
		if x.State == dtypes.GroupPaused || x.State == dtypes.GroupInsufficientFunds {
			nGrpStartable++
		}
	}
	nProvReg := len(s.Providers)
	out := make([]int, len(opKinds))
	for i, k := range opKinds {
		wt := base[k]
		if wt == 0 {
			continue
		}
		damp := func(cond bool) {
			if cond {
				wt = (wt + 9) / 10
			}
		}
		switch k {
		case "CreateDeployment":
			if nDepActive == 0 {
				wt *= 4
			} else if nDepActive >= 4 {
				wt = (wt + 3) / 4
			}
		case "DepositDeployment", "UpdateDeployment", "CloseDeployment":
			damp(nDepActive == 0)
		case "CloseGroup", "PauseGroup":
			damp(nGrpOpen == 0)
		case "StartGroup":
			damp(nGrpStartable == 0)
		case "CreateBid":
			damp(nOrdOpen == 0 || nProvReg == 0)
			if nOrdOpen > 0 && nProvReg > 0 && nBidOpen == 0 {
				wt *= 2
			}
		case "CloseBid":
			damp(nBidOpen+nBidActive == 0)
		case "CreateLease":
			damp(nBidOpen == 0)
			if nBidOpen > 0 {
				wt *= 2
			}
		case "WithdrawLease", "CloseLease":
			damp(nBidActive == 0)
		case "CreateProvider":
			if nProvReg == 0 {
				wt *= 6
			} else if nProvReg >= len(g.w.ActorsOf("provider")) {
				wt = (wt + 4) / 5
			}
		case "UpdateProvider":
			damp(nProvReg == 0)
		case "SignProviderAttributes", "DeleteProviderAttributes":
			damp(len(g.w.ActorsOf("auditor")) == 0)
		}
		if g.busy != nil {
			switch k {
			case "CloseDeployment", "CloseGroup", "PauseGroup":
				wt = (wt + 4) / 5 // leases end one at a time (and are re-let), deployments live long
			case "CreateDeployment":
				if nDepActive < 4 {
					wt *= 2
				}
			case "CreateLease", "CreateBid":
				wt = wt * 3 / 2
			}
		}
		out[i] = wt
	}
	return out
}

// NextOp draws the next operation and its fault decoration.
func (g *gen) NextOp() *Op {
	r := g.w.R
	ws := g.weights(g.bias)
	k := opKinds[r.Weighted(ws, "op.kind")]
	op := g.build(k)
	if op.Required == nil {
		// message names an account that is not an actor (cannot happen with generated ids)
		op.Required = g.anyActor("op.required.fallback")
	}
	op.Signer = op.Required
	op.Gas = 2000000
	if op.Kind == "BoundaryDeployment" {
		op.Gas = 200000000 // 21 groups must not fail for lack of gas
	}
	if pct := g.bias["fault.wrongsigner"]; pct > 0 && r.Bool(pct, "fault.wrongsigner") {
		other := g.anyActor("fault.wrongsigner.who")
		if other != op.Required {
			op.Signer = other
			op.Wrong = true
		}
	}
	if pct := g.bias["fault.failing-tail"]; pct > 0 && !op.Wrong && r.Bool(pct, "fault.failing-tail") {
		op.Tail = g.failingTail(op)
	}
	if pct := g.bias["fault.lowgas"]; pct > 0 && r.Bool(pct, "fault.lowgas") {
		gases := []uint64{40000, 55000, 62000, 66000, 70000, 75000, 80000, 90000, 100000, 120000, 150000}
		op.Gas = gases[r.Choose(len(gases), "fault.lowgas.v")]
		op.LowGas = true
	}
	return op
}
