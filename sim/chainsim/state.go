package chainsim

import (
	"bytes"
	"encoding/binary"
	"fmt"
	"sort"

	sdk "github.com/cosmos/cosmos-sdk/types"

	atypes "github.com/ovrclk/akash/x/audit/types"
	ctypes "github.com/ovrclk/akash/x/cert/types"
	dtypes "github.com/ovrclk/akash/x/deployment/types"
	etypes "github.com/ovrclk/akash/x/escrow/types"
	mtypes "github.com/ovrclk/akash/x/market/types"
	ptypes "github.com/ovrclk/akash/x/provider/types"
)

// AkashStores are the module stores scanned after every transaction.
var AkashStores = []string{"escrow", "deployment", "market", "provider", "audit", "cert"}

type CertRec struct {
	Owner  sdk.AccAddress
	Serial []byte // raw key suffix
	Cert   ctypes.Certificate
}

// Snap is a full read-out of the akash state plus the bank balances of all actors and of the
// escrow module account, taken from raw store iteration (not through keeper iterators).
type Snap struct {
	Height      int64
	Raw         map[string]map[string][]byte
	Accounts    map[string]etypes.Account // "scope/xid"
	Payments    map[string]etypes.Payment // "scope/xid/pid"
	Deployments map[string]dtypes.Deployment
	Groups      map[string]dtypes.Group
	Orders      map[string]mtypes.Order
	Bids        map[string]mtypes.Bid
	Leases      map[string]mtypes.Lease
	Providers   map[string]ptypes.Provider
	Attest      map[string]atypes.Provider // "owner|auditor"
	Certs       map[string]CertRec         // raw key
	Bank        map[string]sdk.Int         // bech32 -> uakt (actors + escrow module)
}

func acctKey(id etypes.AccountID) string { return id.Scope + "/" + id.XID }

func did(id dtypes.DeploymentID) string { return fmt.Sprintf("%s/%d", id.Owner, id.DSeq) }
func gid(id dtypes.GroupID) string      { return fmt.Sprintf("%s/%d/%d", id.Owner, id.DSeq, id.GSeq) }
func oid(id mtypes.OrderID) string {
	return fmt.Sprintf("%s/%d/%d/%d", id.Owner, id.DSeq, id.GSeq, id.OSeq)
}
func bid(id mtypes.BidID) string {
	return fmt.Sprintf("%s/%d/%d/%d/%s", id.Owner, id.DSeq, id.GSeq, id.OSeq, id.Provider)
}
func lid(id mtypes.LeaseID) string { return bid(mtypes.BidID(id)) }

func (w *World) dumpStore(rep *Replica, name string) map[string][]byte {
	ctx := w.Ctx(rep)
	st := ctx.KVStore(rep.App.GetKey(name))
	it := st.Iterator(nil, nil)
	defer it.Close()
	out := map[string][]byte{}
	for ; it.Valid(); it.Next() {
		out[string(it.Key())] = append([]byte{}, it.Value()...)
	}
	return out
}

// TakeSnap reads the state of rep.  Decoding is done by the harness from the documented key layout
// (prefix byte(s) select the record type).
func (w *World) TakeSnap(rep *Replica) *Snap {
	s := &Snap{Height: w.Height, Raw: map[string]map[string][]byte{},
		Accounts: map[string]etypes.Account{}, Payments: map[string]etypes.Payment{},
		Deployments: map[string]dtypes.Deployment{}, Groups: map[string]dtypes.Group{},
		Orders: map[string]mtypes.Order{}, Bids: map[string]mtypes.Bid{}, Leases: map[string]mtypes.Lease{},
		Providers: map[string]ptypes.Provider{}, Attest: map[string]atypes.Provider{}, Certs: map[string]CertRec{},
		Bank: map[string]sdk.Int{}}
	cdc := w.Cdc
	for _, name := range AkashStores {
		s.Raw[name] = w.dumpStore(rep, name)
	}
	for k, v := range s.Raw["escrow"] {
		switch k[0] {
		case 0x01:
			var o etypes.Account
			cdc.MustUnmarshalBinaryBare(v, &o)
			s.Accounts[acctKey(o.ID)] = o
		case 0x02:
			var o etypes.Payment
			cdc.MustUnmarshalBinaryBare(v, &o)
			s.Payments[acctKey(o.AccountID)+"/"+o.PaymentID] = o
		default:
			panic("escrow store: unknown key prefix")
		}
	}
	for k, v := range s.Raw["deployment"] {
		switch k[0] {
		case 0x01:
			var o dtypes.Deployment
			cdc.MustUnmarshalBinaryBare(v, &o)
			s.Deployments[did(o.DeploymentID)] = o
		case 0x02:
			var o dtypes.Group
			cdc.MustUnmarshalBinaryBare(v, &o)
			s.Groups[gid(o.GroupID)] = o
		default:
			panic("deployment store: unknown key prefix")
		}
	}
	for k, v := range s.Raw["market"] {
		switch k[0] {
		case 0x01:
			var o mtypes.Order
			cdc.MustUnmarshalBinaryBare(v, &o)
			s.Orders[oid(o.OrderID)] = o
		case 0x02:
			var o mtypes.Bid
			cdc.MustUnmarshalBinaryBare(v, &o)
			s.Bids[bid(o.BidID)] = o
		case 0x03:
			var o mtypes.Lease
			cdc.MustUnmarshalBinaryBare(v, &o)
			s.Leases[lid(o.LeaseID)] = o
		default:
			panic("market store: unknown key prefix")
		}
	}
	for _, v := range s.Raw["provider"] {
		var o ptypes.Provider
		cdc.MustUnmarshalBinaryBare(v, &o)
		s.Providers[o.Owner] = o
	}
	for _, v := range s.Raw["audit"] {
		var o atypes.Provider
		cdc.MustUnmarshalBinaryBare(v, &o)
		s.Attest[o.Owner+"|"+o.Auditor] = o
	}
	for k, v := range s.Raw["cert"] {
		var o ctypes.Certificate
		cdc.MustUnmarshalBinaryBare(v, &o)
		kb := []byte(k)
		rec := CertRec{Cert: o}
		if len(kb) >= 1+sdk.AddrLen {
			rec.Owner = sdk.AccAddress(kb[1 : 1+sdk.AddrLen])
			rec.Serial = kb[1+sdk.AddrLen:]
		}
		s.Certs[k] = rec
	}
	bv := w.bankView(rep)
	ctx := w.Ctx(rep)
	for _, a := range w.Actors {
		s.Bank[a.Bech] = bv.GetBalance(ctx, a.Addr, Denom).Amount
	}
	ma, _ := sdk.AccAddressFromBech32(w.EscrowMA)
	s.Bank[w.EscrowMA] = bv.GetBalance(ctx, ma, Denom).Amount
	return s
}

func keysOf[V any](m map[string]V) []string {
	out := make([]string, 0, len(m))
	for k := range m {
		out = append(out, k)
	}
	sort.Strings(out)
	return out
}

// KVChange is one changed key of a store between two snapshots.
type KVChange struct {
	Store  string
	Key    []byte
	Before []byte // nil = created
	After  []byte // nil = deleted
}

func DiffRaw(a, b *Snap) []KVChange {
	var out []KVChange
	for _, st := range AkashStores {
		am, bm := a.Raw[st], b.Raw[st]
		for _, k := range keysOf(am) {
			if bv, ok := bm[k]; !ok {
				out = append(out, KVChange{st, []byte(k), am[k], nil})
			} else if !bytes.Equal(am[k], bv) {
				out = append(out, KVChange{st, []byte(k), am[k], bv})
			}
		}
		for _, k := range keysOf(bm) {
			if _, ok := am[k]; !ok {
				out = append(out, KVChange{st, []byte(k), nil, bm[k]})
			}
		}
	}
	return out
}

// abstract state fingerprint: counts of objects per state (used for distinct-trace counting)
func (s *Snap) Abstract() string {
	c := map[string]int{}
	for _, o := range s.Accounts {
		c["a"+fmt.Sprint(int(o.State))]++
	}
	for _, o := range s.Payments {
		c["p"+fmt.Sprint(int(o.State))]++
	}
	for _, o := range s.Deployments {
		c["d"+fmt.Sprint(int(o.State))]++
	}
	for _, o := range s.Groups {
		c["g"+fmt.Sprint(int(o.State))]++
	}
	for _, o := range s.Orders {
		c["o"+fmt.Sprint(int(o.State))]++
	}
	for _, o := range s.Bids {
		c["b"+fmt.Sprint(int(o.State))]++
	}
	for _, o := range s.Leases {
		c["l"+fmt.Sprint(int(o.State))]++
	}
	c["pr"] = len(s.Providers)
	c["at"] = len(s.Attest)
	c["ce"] = len(s.Certs)
	ks := make([]string, 0, len(c))
	for k := range c {
		ks = append(ks, k)
	}
	sort.Strings(ks)
	var b bytes.Buffer
	for _, k := range ks {
		fmt.Fprintf(&b, "%s=%d,", k, c[k])
	}
	return b.String()
}

func be64(v uint64) []byte { var b [8]byte; binary.BigEndian.PutUint64(b[:], v); return b[:] }
func be32(v uint32) []byte { var b [4]byte; binary.BigEndian.PutUint32(b[:], v); return b[:] }
