package chainsim

import (
	"os"
	"strconv"
	"strings"
	"testing"
	"testing/synctest"
	"time"
)

// TestReexecSkewed is the skewed-clock child of the C07 cross-process comparison: it replays a recorded
// history inside a synctest bubble, whose wall clock starts at 2000-01-01 and is advanced by
// VERIF_REEXEC_SKEW_YEARS before the first block.  Nothing the state machine computes may depend on it.
func TestReexecSkewed(t *testing.T) {
	path, outPath := os.Getenv("VERIF_REEXEC_FILE"), os.Getenv("VERIF_REEXEC_OUT")
	if path == "" || outPath == "" {
		t.Skip("only run as a child of chainsim")
	}
	years, _ := strconv.Atoi(os.Getenv("VERIF_REEXEC_SKEW_YEARS"))
	rc := -1
	func() {
		defer func() {
			// goroutines the application leaves behind are reported as a deadlock when the bubble ends
			if p := recover(); p != nil && !strings.Contains(strings.ToLower(toString(p)), "deadlock") {
				panic(p)
			}
		}()
		synctest.Test(t, func(t *testing.T) {
			for i := 0; i < years; i++ {
				time.Sleep(365 * 24 * time.Hour)
			}
			f, err := os.Create(outPath + ".tmp")
			if err != nil {
				t.Fatal(err)
			}
			rc = ReexecTo(path, f)
			f.Close()
		})
	}()
	if rc != 0 {
		t.Fatalf("re-execution returned %d", rc)
	}
	if err := os.Rename(outPath+".tmp", outPath); err != nil {
		t.Fatal(err)
	}
}

func toString(p interface{}) string {
	if e, ok := p.(error); ok {
		return e.Error()
	}
	if s, ok := p.(string); ok {
		return s
	}
	return ""
}
