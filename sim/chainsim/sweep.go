package chainsim

import (
	"fmt"
	"time"

	sdk "github.com/cosmos/cosmos-sdk/types"

	"github.com/ovrclk/akash/types/unit"
	dtypes "github.com/ovrclk/akash/x/deployment/types"
	mtypes "github.com/ovrclk/akash/x/market/types"
	ptypes "github.com/ovrclk/akash/x/provider/types"

	"verifsim/core"
)

// executeSweep is the systematic small-scope workload for the escrow arithmetic (C02): one tenant,
// one or two deployments (prefix-related dseq), 1-3 concurrently open leases with rates 1..4, deposit
// 0..12 above a minimum of 20, then up to four settle-triggering actions (withdraw by any provider,
// close of one lease, deposit, close bid, close deployment, a further lease) at gaps 0..8.  Small
// balances, rates and gaps are enumerated by the choice stream; the same oracle as for the random
// histories runs after every transaction.
func (e Engine) executeSweep(r *core.Run, bias map[string]int) *core.Violation {
	r.Count("probe:sweep-runs")
	w := NewWorldPreset(r, 1, &Preset{Knobs: Knobs{DeploymentMinDeposit: 20, BidMinDeposit: 1, OrderMaxBids: 20, MaxGap: 8}, Tenants: 1, Providers: 3, Auditors: 0})
	L := NewLedger(w)
	chk := newChecker(r.Property, w)
	g := &gen{w: w, bias: bias}
	t := &txRunner{r: r, w: w, L: L, chk: chk, g: g}
	tenant := w.ActorsOf("tenant")[0]
	provs := w.ActorsOf("provider")

	inBlock := false
	begin := func(gap int) *core.Violation {
		if inBlock && gap == 0 {
			return nil // same block as the previous transaction
		}
		if inBlock {
			hs := w.EndBlock()
			if v := chk.blockEnd(w, hs); v != nil {
				return v
			}
		}
		for i := 1; i < gap; i++ {
			w.BeginBlock(6 * time.Second)
			w.EndBlock()
		}
		w.BeginBlock(6 * time.Second)
		inBlock = true
		t.snap = w.TakeSnap(w.Primary())
		w.blockStart = t.snap
		g.s = t.snap
		return nil
	}
	do := func(kind string, msg sdk.Msg, signer *Actor, gap int) (*core.Violation, bool) {
		r.Mark()
		if r.Switch("skip.tx") {
			return nil, false
		}
		if v := begin(gap); v != nil {
			return v, false
		}
		op := &Op{Kind: kind, Msg: msg, Required: signer, Signer: signer}
		txb, ok := t.sign(op)
		if !ok {
			return nil, false
		}
		before := r.Counters["result:ok"]
		if v := t.deliver(op, txb, false); v != nil {
			return v, false
		}
		return nil, r.Counters["result:ok"] > before
	}
	for _, p := range provs {
		if v, _ := do("CreateProvider", ptypes.NewMsgCreateProvider(p.Addr, "https://"+p.Name+".example.com", nil), p, 1); v != nil {
			return v
		}
	}
	nDep := 1 + r.Choose(2, "sweep.deployments")
	dseqs := []uint64{1, 12}
	type lease struct {
		id   mtypes.LeaseID
		open bool
	}
	var leases []*lease
	var deps []dtypes.DeploymentID
	for d := 0; d < nDep; d++ {
		id := dtypes.DeploymentID{Owner: tenant.Bech, DSeq: dseqs[d]}
		k := 1 + r.Choose(3, "sweep.payments")
		var groups []dtypes.GroupSpec
		for i := 0; i < k; i++ {
			groups = append(groups, dtypes.GroupSpec{Name: fmt.Sprintf("g%d", i), Resources: []dtypes.Resource{{
				Resources: g.resourceUnits(100, 16*unit.Mi, 64*unit.Mi), Count: 1, Price: sdk.NewInt64Coin(Denom, int64(1+r.Choose(4, "sweep.rate")))}}})
		}
		deposit := sdk.NewInt64Coin(Denom, 20+int64(r.Choose(13, "sweep.deposit")))
		v, ok := do("CreateDeployment", dtypes.NewMsgCreateDeployment(id, groups, g.version(), deposit), tenant, 1)
		if v != nil {
			return v
		}
		if !ok {
			continue
		}
		deps = append(deps, id)
		for i := 0; i < k; i++ {
			p := provs[r.Choose(len(provs), "sweep.provider")]
			oid := mtypes.OrderID{Owner: id.Owner, DSeq: id.DSeq, GSeq: uint32(i + 1), OSeq: 1}
			price := groups[i].Resources[0].Price
			if v, ok := do("CreateBid", mtypes.NewMsgCreateBid(oid, p.Addr, price, sdk.NewInt64Coin(Denom, 1)), p, r.Choose(2, "sweep.bidgap")); v != nil {
				return v
			} else if !ok {
				continue
			}
			bidID := mtypes.MakeBidID(oid, p.Addr)
			if v, ok := do("CreateLease", mtypes.NewMsgCreateLease(bidID), tenant, r.Choose(4, "sweep.leasegap")); v != nil {
				return v
			} else if ok {
				leases = append(leases, &lease{id: mtypes.MakeLeaseID(bidID), open: true})
			}
		}
	}
	if len(leases) >= 3 {
		r.Count("probe:sweep-3+-payments")
	}
	nTrig := 1 + r.Choose(4, "sweep.triggers")
	for i := 0; i < nTrig && len(leases) > 0 && len(deps) > 0; i++ {
		gap := r.Choose(9, "sweep.gap")
		l := leases[r.Choose(len(leases), "sweep.lease")]
		d := deps[r.Choose(len(deps), "sweep.dep")]
		var v *core.Violation
		switch r.Choose(6, "sweep.trigger") {
		case 0:
			v, _ = do("WithdrawLease", mtypes.NewMsgWithdrawLease(l.id), w.ActorByAddr(l.id.Provider), gap)
		case 1:
			v, _ = do("CloseLease", mtypes.NewMsgCloseLease(l.id), tenant, gap)
		case 2:
			v, _ = do("DepositDeployment", dtypes.NewMsgDepositDeployment(d, sdk.NewInt64Coin(Denom, int64(1+r.Choose(12, "sweep.topup")))), tenant, gap)
		case 3:
			v, _ = do("CloseBid", mtypes.NewMsgCloseBid(mtypes.BidID(l.id)), w.ActorByAddr(l.id.Provider), gap)
		case 4:
			v, _ = do("CloseDeployment", dtypes.NewMsgCloseDeployment(d), tenant, gap)
		case 5:
			v, _ = do("WithdrawLease", mtypes.NewMsgWithdrawLease(leases[0].id), w.ActorByAddr(leases[0].id.Provider), gap)
		}
		if v != nil {
			return v
		}
	}
	if inBlock {
		hs := w.EndBlock()
		if v := chk.blockEnd(w, hs); v != nil {
			return v
		}
	}
	return chk.Quiescent(w, w.TakeSnap(w.Primary()), L, "end-of-sweep")
}
