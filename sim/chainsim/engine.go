package chainsim

import (
	"fmt"
	"time"

	sdk "github.com/cosmos/cosmos-sdk/types"
	abci "github.com/tendermint/tendermint/abci/types"

	"verifsim/core"
)

// TxCtx is what every checker sees after a delivered transaction.
type TxCtx struct {
	W      *World
	Op     *Op
	Before *Snap
	After  *Snap
	Res    abci.ResponseDeliverTx
	All    []abci.ResponseDeliverTx
	Height int64
	Dup    bool // this delivery is a replay of an already delivered signed tx
	OK     bool
	L      *Ledger
}

type checker interface {
	// AfterTx is called after every delivered transaction (i.e. after every prefix of the history).
	AfterTx(c *TxCtx) *core.Violation
	// Quiescent is called on a state reached without a transaction (after restart, import, end of block).
	Quiescent(w *World, s *Snap, l *Ledger, why string) *core.Violation
}

type Engine struct{}

func (Engine) Name() string { return "chainsim" }

func (Engine) Properties() []string {
	return []string{"C01", "C02", "C03", "C04", "C05", "C06", "C07", "C08", "C16", "C17", "C19"}
}

// bias tables: op weights and fault percentages per property.
func biasFor(prop string) map[string]int {
	b := map[string]int{
		"CreateDeployment": 10, "DepositDeployment": 5, "UpdateDeployment": 3, "CloseDeployment": 5, "CloseGroup": 4,
		"PauseGroup": 4, "StartGroup": 5, "CreateBid": 14, "CloseBid": 6, "CreateLease": 12, "WithdrawLease": 8,
		"CloseLease": 6, "CreateProvider": 5, "UpdateProvider": 2, "SignProviderAttributes": 3,
		"DeleteProviderAttributes": 1, "BankSend": 2, "CreateCertificate": 0, "RevokeCertificate": 0, "BoundaryDeployment": 0,
		"fault.wrongsigner": 4, "fault.lowgas": 5, "fault.dup": 3, "fault.crash": 2, "fault.export": 1, "fault.failing-tail": 6,
	}
	switch prop {
	case "C02":
		b["sweep"] = 40
		b["dseq.prefix-family"] = 30
		b["WithdrawLease"] = 14
		b["DepositDeployment"] = 8
		b["CreateLease"] = 16
	case "C03", "C05":
		b["sweep"] = 30
		b["busy"] = 35
		b["spread"] = 40
		b["CloseLease"] = 10
		b["CloseBid"] = 9
		b["CloseDeployment"] = 8
	case "C06":
		b["dseq.prefix-family"] = 70
		b["clb.lost"] = 30
		b["cl.withdrawn"] = 10
		b["busy"] = 50
		b["CreateLease"] = 16
		b["WithdrawLease"] = 10
		b["fault.wrongsigner"] = 25
		b["fault.dup"] = 8
		b["CreateCertificate"] = 3
		b["RevokeCertificate"] = 2
		b["UpdateProvider"] = 4
		b["SignProviderAttributes"] = 5
		b["DeleteProviderAttributes"] = 3
	case "C07":
		b["attrs.case-variants"] = 1
		b["cert.replay-foreign"] = 30
		b["CreateCertificate"] = 6
		b["SignProviderAttributes"] = 12
		b["DeleteProviderAttributes"] = 8
		b["CreateCertificate"] = 5
		b["RevokeCertificate"] = 1
		b["fault.crash"] = 5
		b["UpdateProvider"] = 8
		b["up.busiest"] = 60
		b["busy"] = 40
		b["cd.multigroup"] = 1
		b["spread"] = 70
		b["CloseDeployment"] = 7
		b["grp.hasreq"] = 30
		b["CreateLease"] = 16
		b["CreateBid"] = 18
	case "C08":
		b["cb.selfbid"] = 6
		b["grp.signed"] = 30
		b["sa.resign"] = 45
		b["busy"] = 30
		b["cp.any"] = 15
		b["SignProviderAttributes"] = 12
		b["DeleteProviderAttributes"] = 6
		b["UpdateProvider"] = 9
		b["CreateBid"] = 22
		b["CreateProvider"] = 8
	case "C16":
		b["UpdateDeployment"] = 6
		b["UpdateProvider"] = 4
		b["SignProviderAttributes"] = 5
		b["DeleteProviderAttributes"] = 3
	case "C17":
		b["CreateCertificate"] = 40
		b["RevokeCertificate"] = 25
		for _, k := range []string{"CreateBid", "CreateLease", "WithdrawLease", "CloseLease", "CloseBid", "StartGroup", "PauseGroup", "CloseGroup"} {
			b[k] = 1
		}
		b["CreateDeployment"] = 2
	case "C19":
		b["BoundaryDeployment"] = 40
		b["fault.paramchange"] = 6
		b["CreateDeployment"] = 8
		b["fault.lowgas"] = 8
	}
	return b
}

// txRunner delivers one generated operation and runs the armed checker on the result.
type txRunner struct {
	r    *core.Run
	w    *World
	L    *Ledger
	chk  *checkerSet
	g    *gen
	snap *Snap
	ntx  int
}

func (t *txRunner) deliver(op *Op, txb []byte, dup bool) *core.Violation {
	r, w := t.r, t.w
	r.Step++
	t.ntx++
	r.Ops++
	all := w.Deliver(txb)
	after := w.TakeSnap(w.Primary())
	c := &TxCtx{W: w, Op: op, Before: t.snap, After: after, Res: all[0], All: all, Height: w.Height, Dup: dup, OK: all[0].Code == 0, L: t.L}
	r.Count("op:" + op.Kind)
	outcome := "ok"
	if !c.OK {
		outcome = fmt.Sprintf("%s/%d", c.Res.Codespace, c.Res.Code)
		r.Count("result:rejected")
		r.Count("rej:" + op.Kind + ":" + outcome)
	} else {
		r.Count("result:ok")
		r.Count("ok:" + op.Kind)
	}
	if op.Wrong && !dup {
		r.Count("fault:wrong-signer")
	}
	if op.Tail != nil && !dup {
		r.Count("fault:failing-second-message")
		if c.OK {
			// the tail is built to fail; if it ever succeeds the harness's book-keeping would be wrong
			panic(fmt.Sprintf("harness: failing-tail message %T succeeded", op.Tail))
		}
	}
	if c.Res.Codespace == "sdk" && c.Res.Code == 11 {
		r.Count("fault:out-of-gas-abort")
	}
	if len(DiffRaw(t.snap, after)) > 0 {
		r.Mutating++
	}
	r.Logf("h=%d tx#%d %s%s signer=%s%s%s -> %s %s", w.Height, t.ntx, describeOp(w, op), flag(op.Tail != nil, " + FAILING-SECOND-MSG"), op.Signer.Name, flag(op.Wrong, " WRONGSIGNER"),
		flag(dup, " DUPLICATE"), outcome, shortLog(c.Res))
	r.Abstract(op.Kind + "|" + outcome + "|" + after.Abstract())
	t.L.Apply(c)
	if v := t.chk.AfterTx(c); v != nil {
		return v
	}
	t.snap = after
	t.g.s = after
	return nil
}

// sign builds the transaction of an operation with the signer's current sequence.
func (t *txRunner) sign(op *Op) ([]byte, bool) {
	if op.Signer == nil {
		op.Signer = op.Required
	}
	if op.Gas == 0 {
		op.Gas = 2000000
	}
	msgs := []sdk.Msg{op.Msg}
	if op.Tail != nil {
		msgs = append(msgs, op.Tail)
	}
	txb, err := t.w.SignTx(msgs, op.Signer, t.w.Sequence(op.Signer), op.Gas)
	if err != nil {
		t.r.Count("op-unsignable")
		return nil, false
	}
	return txb, true
}

func (e Engine) Execute(r *core.Run) *core.Violation {
	nrep := 1
	if r.Property == "C07" {
		nrep = 2 + r.Choose(3, "knob.replicas")
	}
	bias := biasFor(r.Property)
	if bias["sweep"] > 0 && r.Bool(bias["sweep"], "knob.sweep") {
		return e.executeSweep(r, bias)
	}
	w := NewWorld(r, nrep)
	L := NewLedger(w)
	chk := newChecker(r.Property, w)
	g := &gen{w: w, bias: bias}
	t := &txRunner{r: r, w: w, L: L, chk: chk, g: g}
	if bias["busy"] > 0 && r.Bool(bias["busy"], "knob.busy-provider") {
		g.busy = w.ActorsOf("provider")[0]
	} else if bias["spread"] > 0 && r.Bool(bias["spread"], "knob.spread-providers") {
		g.spread = true
	}

	maxTx := 20 + r.Choose(100, "knob.maxtx")
	if r.Tier == "thorough" {
		maxTx = 20 + r.Choose(160, "knob.maxtx")
	}
	var lastTx []byte
	var lastOp *Op
	for t.ntx < maxTx {
		// height gap: empty blocks before this one
		r.Mark()
		gap := 0
		if r.Bool(45, "blk.gap") {
			gap = 1 + r.Choose(w.Knobs.MaxGap, "blk.gap.n")
		}
		for i := 0; i < gap; i++ {
			w.BeginBlock(6 * time.Second)
			hs := w.EndBlock()
			if v := chk.blockEnd(w, hs); v != nil {
				return v
			}
		}
		if bias["fault.paramchange"] > 0 && r.Bool(bias["fault.paramchange"], "fault.paramchange") {
			// governance changes the minimum deposit between two deployments
			choices := []int64{5000000, 50, 500, 20, 5000, 10000000}
			min := choices[r.Choose(len(choices), "fault.paramchange.v")]
			if min == w.Knobs.DeploymentMinDeposit {
				min++
			}
			r.Count("fault:governance-parameter-change")
			r.Logf("h=%d governance: deployment minimum deposit %d -> %d", w.Height+1, w.Knobs.DeploymentMinDeposit, min)
			w.BeginBlockWithMinDeposit(6*time.Second, min)
		} else {
			w.BeginBlock(6 * time.Second)
		}
		t.snap = w.TakeSnap(w.Primary())
		w.blockStart = t.snap
		g.s = t.snap
		n := 1 + r.Weighted([]int{5, 3, 2, 1, 1}, "blk.ntx")
		for i := 0; i < n && t.ntx < maxTx; i++ {
			var op *Op
			var txb []byte
			dup := false
			r.Mark()
			skip := r.Switch("skip.tx")
			if lastTx != nil && r.Bool(g.bias["fault.dup"], "fault.dup") {
				op, txb, dup = lastOp, lastTx, true
				r.Count("fault:duplicate-tx")
			} else {
				op = g.NextOp()
				var ok bool
				if txb, ok = t.sign(op); !ok {
					continue
				}
			}
			if skip {
				continue
			}
			if v := t.deliver(op, txb, dup); v != nil {
				return v
			}
			lastTx, lastOp = txb, op
		}
		// crash before commit / restart
		if r.Bool(g.bias["fault.crash"], "fault.crash") {
			if v := w.crashRestart(r, chk, L); v != nil {
				return v
			}
		} else {
			hs := w.EndBlock()
			if v := chk.blockEnd(w, hs); v != nil {
				return v
			}
		}
		if r.Bool(g.bias["fault.export"], "fault.export") {
			if v := w.exportImport(r, chk, L); v != nil {
				return v
			}
		}
	}
	if r.Property == "C07" {
		pct := 25
		if r.Tier == "thorough" {
			pct = 40
		}
		if r.Bool(pct, "c07.crossprocess") {
			if v := chk.crossProcess(w); v != nil {
				return v
			}
		}
	}
	// final quiescent check
	if v := chk.Quiescent(w, w.TakeSnap(w.Primary()), L, "end-of-run"); v != nil {
		return v
	}
	return nil
}

func flag(b bool, s string) string {
	if b {
		return s
	}
	return ""
}

func shortLog(r abci.ResponseDeliverTx) string {
	if r.Code == 0 {
		return ""
	}
	l := r.Log
	if len(l) > 70 {
		l = l[:70]
	}
	return "(" + l + ")"
}

func (Engine) Describe(property string) core.Description {
	d := core.Description{
		Rule: "Each run builds a fresh world (1-3 tenants, 1-3 providers, 0-2 auditors, per-run deposit/bid-cap/gap knobs, rich and poor accounts) " +
			"on the real AkashApp over MemDB and delivers 20-120 (thorough: 20-180) signed transactions drawn state-aware from the full message set " +
			"through BeginBlock/DeliverTx/EndBlock/Commit with random height gaps (0 = same block), decorated with faults " +
			"(wrong signer, gas-limit abort at an arbitrary store access, duplicate delivery, crash before commit + restart, genesis export/import). " +
			"The property's oracle is evaluated after every transaction and after every restart/import.",
		Real: []string{"app.AkashApp", "baseapp runTx/ante/signature verification/gas meter/msg router/cache-wrap rollback", "x/auth", "x/bank (real balances)",
			"x/params", "x/escrow", "x/deployment", "x/market (+hooks)", "x/provider", "x/audit", "x/cert", "rootmulti/IAVL store over tm-db MemDB",
			"staking/mint/distribution/gov/ibc Begin/EndBlockers (idle)"},
		Stub:        []string{"Tendermint consensus/p2p/mempool: absent, the simulator is the block proposer"},
		Assumptions: []string{"fees and gas prices are zero in simulation", "store-level (IAVL/tm-db) disk faults are out of scope", "sampling: held on everything explored, not a proof"},
		QuickRuns:   800, ThoroughRuns: 30000, QuickBudgetS: 150, ThoroughBudget: 900,
		SimTimeUnit: "blocks",
	}
	switch property {
	case "C07":
		d.QuickRuns, d.ThoroughRuns = 320, 12000
		d.ReplayAttempts = 12
	case "C17":
		d.QuickRuns, d.ThoroughRuns = 480, 16000
	case "C08":
		// several auditors spread the attestations: histories in which one (auditor, provider) pair is signed,
		// corrected and withdrawn in the right order need more runs than the other checks' quick tier
		d.QuickRuns = 2400
	}
	d.RequiredProbes = requiredProbes(property)
	return d
}
