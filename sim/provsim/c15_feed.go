package provsim

import (
	"context"
	"fmt"
	"strings"

	sdk "github.com/cosmos/cosmos-sdk/types"
	abci "github.com/tendermint/tendermint/abci/types"
	ctypes "github.com/tendermint/tendermint/rpc/core/types"
	tmtypes "github.com/tendermint/tendermint/types"

	"github.com/ovrclk/akash/events"
	"github.com/ovrclk/akash/pubsub"
	mtypes "github.com/ovrclk/akash/x/market/types"

	"verifsim/core"
	"verifsim/simrt"
)

// ------------------------------------------------------------------ C15, Layer 2: the chain side of the bus.
// events.Publish runs as a simulated task against a stand-in node client whose two subscription channels
// the harness has filled with transaction / block results, as the node's bounded subscription queues
// would be; subscribers read concurrently.  Publication order is the order of the results on the subscription
// and of the events inside a result: every subscriber must see each stream's events exactly once and
// in that order (failed transactions publish nothing).

func runC15Feed(r *core.Run) (*core.Violation, func() *core.Violation) {
	s := NewSched(r)
	simrt.Enable(r)
	released := false
	ctx, cancel := context.WithCancel(context.Background())
	var bus pubsub.Bus
	defer func() {
		cancel()
		if !released {
			released = true
			simrt.ReleaseAll()
		}
		if bus != nil {
			bus.Close()
		}
		s.Settle()
	}()
	nRes := 2 + r.Choose(7, "knob.results")
	nReaders := 1 + r.Choose(2, "knob.readers")
	owner := testAddr(3).String()
	txch := make(chan ctypes.ResultEvent, 100)
	blkch := make(chan ctypes.ResultEvent, 100)
	var wantTx, wantBlk []uint64
	seq := uint64(0)
	desc := ""
	// results carry their block height as a node's do: several transactions may share a block, the
	// header result of a block follows its transactions on the block subscription
	height := int64(5)
	for i := 0; i < nRes; i++ {
		if i > 0 && r.Bool(50, "feed.next-block") {
			height++
		}
		n := 1 + r.Choose(3, "feed.events")
		failed := r.Bool(15, "feed.failed-tx")
		blk := !failed && r.Bool(20, "feed.block-result")
		var evs []abci.Event
		for k := 0; k < n; k++ {
			// the same object may make the same transition twice in one result (a multi-message
			// transaction that pauses, starts and pauses a group): an identical event, published again
			if !(k > 0 && r.Bool(15, "feed.repeat-event")) {
				seq++
			} else {
				r.Count("probe:l2-feed-identical-event-repeated")
			}
			ev := mtypes.NewEventOrderCreated(mtypes.OrderID{Owner: owner, DSeq: seq, GSeq: 1, OSeq: 1})
			evs = append(evs, abci.Event(ev.ToSDKEvent()))
			switch {
			case failed:
			case blk:
				wantBlk = append(wantBlk, seq)
			default:
				wantTx = append(wantTx, seq)
			}
		}
		switch {
		case blk:
			height++ // one header result per block
			blkch <- ctypes.ResultEvent{Data: tmtypes.EventDataNewBlockHeader{Header: tmtypes.Header{Height: height}, ResultEndBlock: abci.ResponseEndBlock{Events: evs}}}
			desc += fmt.Sprintf(" blk@%d[%d]", height, n)
		case failed:
			txch <- ctypes.ResultEvent{Data: tmtypes.EventDataTx{TxResult: abci.TxResult{Height: height, Index: uint32(i), Result: abci.ResponseDeliverTx{Code: 5, Events: evs}}}}
			desc += fmt.Sprintf(" failed-tx@%d[%d]", height, n)
		default:
			txch <- ctypes.ResultEvent{Data: tmtypes.EventDataTx{TxResult: abci.TxResult{Height: height, Index: uint32(i), Result: abci.ResponseDeliverTx{Events: evs}}}}
			desc += fmt.Sprintf(" tx@%d[%d]", height, n)
		}
	}
	r.Logf("L2 chain feed: readers=%d results:%s", nReaders, desc)
	r.Count("probe:l2-chain-feed-runs")
	bus = pubsub.NewBus()
	subscribed := 0
	quit := make(chan struct{})
	defer close(quit)
	got := make([][]uint64, nReaders)
	total := len(wantTx) + len(wantBlk)
	for rd := 0; rd < nReaders; rd++ {
		rd := rd
		simrt.Go(fmt.Sprintf("reader%d", rd), func() {
			sub, err := bus.Subscribe()
			if err != nil {
				return // the run is over and the bus already closed
			}
			subscribed++
			for {
				sel := simrt.NewSelect("task.read")
				rv := simrt.SelRecv(sel, sub.Events())
				simrt.SelRecv(sel, (<-chan struct{})(quit))
				if sel.Run() != 0 {
					return
				}
				if ev, ok := rv.Val.(mtypes.EventOrderCreated); ok {
					got[rd] = append(got[rd], ev.ID.DSeq)
				} else {
					got[rd] = append(got[rd], 0)
				}
			}
		})
	}
	simrt.NameChan(txch, "tx")
	simrt.NameChan(blkch, "blk")
	waitSubs := func() bool {
		for subscribed < nReaders {
			if ctx.Err() != nil {
				return false // the run is over (a released task must never spin)
			}
			simrt.Yield("wait-for-subscribers")
		}
		return true
	}
	// events.Publish subscribes to both streams of a (stand-in) node and runs its publishers itself
	simrt.Go("publish", func() {
		if waitSubs() {
			_ = events.Publish(ctx, &fakeEventsClient{tx: txch, blk: blkch}, "feed", bus)
		}
	})
	loop := &l2Loop{r: r, s: s}
	done := func() bool {
		if subscribed < nReaders {
			return false
		}
		for _, g := range got {
			if len(g) < total {
				return false
			}
		}
		return true
	}
	if v := loop.run(200+r.Choose(400, "knob.l2steps"), done); v != nil {
		return v, nil
	}
	loop.drain(400, done)
	s.Settle()
	if subscribed < nReaders {
		return r.Flag("C15/l2-operation-blocked", "Subscribe did not return for %d of %d readers although every goroutine was scheduled fairly", nReaders-subscribed, nReaders), nil
	}
	r.Ops += total
	r.Mutating++
	r.SimTime += int64(loop.steps)
	isTx := map[uint64]bool{}
	for _, v := range wantTx {
		isTx[v] = true
	}
	for rd, g := range got {
		var tx, blk []uint64
		for _, v := range g {
			if isTx[v] {
				tx = append(tx, v)
			} else {
				blk = append(blk, v)
			}
		}
		if fmt.Sprint(tx) != fmt.Sprint(wantTx) {
			return r.Flag("C15/l2-chain-feed-order", "subscriber %d saw the transaction stream's events as %v, the chain published them as %v (all it received: %v)", rd, tx, wantTx, g), nil
		}
		if fmt.Sprint(blk) != fmt.Sprint(wantBlk) {
			return r.Flag("C15/l2-chain-feed-order", "subscriber %d saw the block stream's events as %v, the chain published them as %v (all it received: %v)", rd, blk, wantBlk, g), nil
		}
	}
	r.Abstract(fmt.Sprintf("feed tx=%d blk=%d readers=%d", len(wantTx), len(wantBlk), nReaders))
	_ = sdk.AccAddress{}
	return nil, nil
}

// fakeEventsClient stands in for the node's event subscription API: the transaction query gets the
// transaction channel, the block-header query the other one.
type fakeEventsClient struct {
	tx, blk chan ctypes.ResultEvent
}

func (f *fakeEventsClient) Subscribe(_ context.Context, _ string, query string, _ ...int) (<-chan ctypes.ResultEvent, error) {
	if strings.Contains(query, "NewBlockHeader") {
		return f.blk, nil
	}
	return f.tx, nil
}

func (f *fakeEventsClient) Unsubscribe(context.Context, string, string) error { return nil }
func (f *fakeEventsClient) UnsubscribeAll(context.Context, string) error      { return nil }
