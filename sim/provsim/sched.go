// Package provsim runs the provider daemon's actors (bid engine, cluster service, manifest service,
// event bus) inside a testing/synctest bubble under a seeded scheduler.  See DESIGN.md section 3.
package provsim

import (
	"context"
	"errors"
	"fmt"
	"sort"
	"sync"
	"testing/synctest"

	"verifsim/core"
)

// Call is one call of the code under test into the outside world (chain query, broadcast, cluster
// operation, pricing ...) that is parked until the scheduler completes it.
type Call struct {
	ID     int
	Inc    int // provider incarnation that issued it
	Method string
	Key    string // content key (method + identifying arguments): calls are chosen by content, not arrival
	Args   interface{}
	Ctx    context.Context
	done   chan callResult
	Start  int // scheduler step at which it was issued
	End    int // step at which it returned (0 = in flight)
	Err    error
	OK     bool
}

type callResult struct {
	val interface{}
	err error
}

var ErrInjected = errors.New("injected fault: transport error")
var ErrDead = errors.New("provider process is dead")

// Sched owns every nondeterministic decision of a provsim run.
type Sched struct {
	R       *core.Run
	mu      sync.Mutex
	pending []*Call
	History []*Call // every call ever issued, in issue order
	nextID  int
	Step    int
	Inc     int                                // current provider incarnation
	dead    map[int]bool                       // crashed incarnations
	Respond func(c *Call) (interface{}, error) // computes the successful answer at completion time
	// NoCancel lists methods whose parked calls do not return when their context is cancelled (a
	// remote call that does not notice the cancellation promptly): they return only when completed.
	NoCancel map[string]bool
}

func NewSched(r *core.Run) *Sched {
	return &Sched{R: r, dead: map[int]bool{}, Inc: 1}
}

// Do is called by stubs: it parks the calling goroutine until the scheduler completes the call.
// A call issued by a crashed incarnation fails at once and leaves no trace outside.
func (s *Sched) Do(ctx context.Context, inc int, method, key string, args interface{}) (interface{}, error) {
	s.mu.Lock()
	if s.dead[inc] {
		s.mu.Unlock()
		return nil, ErrDead
	}
	s.nextID++
	c := &Call{ID: s.nextID, Inc: inc, Method: method, Key: key, Args: args, Ctx: ctx, done: make(chan callResult, 1), Start: s.Step}
	s.pending = append(s.pending, c)
	s.History = append(s.History, c)
	s.mu.Unlock()
	if ctx == nil || s.NoCancel[method] {
		ctx = context.Background()
	}
	select {
	case res := <-c.done:
		return res.val, res.err
	case <-ctx.Done():
		s.mu.Lock()
		s.remove(c)
		if c.End == 0 {
			c.End = s.Step
			c.Err = ctx.Err()
		}
		s.mu.Unlock()
		return nil, ctx.Err()
	}
}

func (s *Sched) remove(c *Call) {
	for i, p := range s.pending {
		if p == c {
			s.pending = append(s.pending[:i], s.pending[i+1:]...)
			return
		}
	}
}

// Pending returns the parked calls in a canonical order (content key, then id), so that the choice
// among them does not depend on the order in which goroutines happened to arrive.
func (s *Sched) Pending() []*Call {
	s.mu.Lock()
	defer s.mu.Unlock()
	out := append([]*Call{}, s.pending...)
	sort.SliceStable(out, func(i, j int) bool {
		if out[i].Key != out[j].Key {
			return out[i].Key < out[j].Key
		}
		return out[i].ID < out[j].ID
	})
	return out
}

// Complete finishes a parked call with success (answer computed now from the model) or an error.
func (s *Sched) Complete(c *Call, fail error) {
	s.mu.Lock()
	s.remove(c)
	c.End = s.Step
	s.mu.Unlock()
	var val interface{}
	err := fail
	if err == nil && s.Respond != nil {
		val, err = s.Respond(c)
	}
	s.mu.Lock()
	c.Err = err
	c.OK = err == nil
	s.mu.Unlock()
	c.done <- callResult{val, err}
}

// Crash marks the incarnation dead: its parked calls fail, later calls fail immediately.
func (s *Sched) Crash(inc int) {
	s.mu.Lock()
	s.dead[inc] = true
	var mine []*Call
	for _, c := range s.pending {
		if c.Inc == inc {
			mine = append(mine, c)
		}
	}
	s.mu.Unlock()
	for _, c := range mine {
		s.mu.Lock()
		s.remove(c)
		c.End = s.Step
		c.Err = ErrDead
		s.mu.Unlock()
		c.done <- callResult{nil, ErrDead}
	}
}

// Settle waits until every goroutine in the bubble is durably blocked.
func (s *Sched) Settle() { synctest.Wait() }

// Tick advances the step counter (call once per scheduler decision).
func (s *Sched) Tick() {
	s.mu.Lock()
	s.Step++
	s.mu.Unlock()
	s.R.Step = s.Step
}

func (c *Call) String() string {
	st := "in-flight"
	if c.End != 0 {
		if c.OK {
			st = "ok"
		} else {
			st = fmt.Sprintf("err(%v)", c.Err)
		}
	}
	return fmt.Sprintf("#%d %s [%d,%d] %s", c.ID, c.Key, c.Start, c.End, st)
}

// CallsWhere returns the history entries satisfying pred, in issue order.
func (s *Sched) CallsWhere(pred func(*Call) bool) []*Call {
	s.mu.Lock()
	defer s.mu.Unlock()
	var out []*Call
	for _, c := range s.History {
		if pred(c) {
			out = append(out, c)
		}
	}
	return out
}

// isDone reports whether ch is closed/ready without blocking.
func isDone(ch <-chan struct{}) bool {
	select {
	case <-ch:
		return true
	default:
		return false
	}
}

func synctestWait() { synctest.Wait() }
