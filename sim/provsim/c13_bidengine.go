package provsim

import (
	"context"
	"errors"
	"fmt"
	"sort"
	"time"

	sdk "github.com/cosmos/cosmos-sdk/types"
	"github.com/tendermint/tendermint/libs/log"

	"github.com/ovrclk/akash/client"
	"github.com/ovrclk/akash/client/broadcaster"
	"github.com/ovrclk/akash/provider/bidengine"
	ctypes "github.com/ovrclk/akash/provider/cluster/types"
	"github.com/ovrclk/akash/provider/event"
	"github.com/ovrclk/akash/provider/session"
	"github.com/ovrclk/akash/pubsub"
	atypes "github.com/ovrclk/akash/types"
	"github.com/ovrclk/akash/types/unit"
	audittypes "github.com/ovrclk/akash/x/audit/types"
	dtypes "github.com/ovrclk/akash/x/deployment/types"
	mquery "github.com/ovrclk/akash/x/market/query"
	mtypes "github.com/ovrclk/akash/x/market/types"
	ptypes "github.com/ovrclk/akash/x/provider/types"

	"verifsim/core"
)

// ------------------------------------------------------------------ chain model (tiny)

type mOrder struct {
	ID         mtypes.OrderID
	Group      dtypes.Group
	State      mtypes.Order_State
	BidOnChain bool // an open/matched bid of our provider exists
	BidEver    bool // a bid record of our provider exists for the order (open, matched, closed or lost)
	BidPrice   sdk.Coin
	Leased     string // provider that got the lease ("" = none)
}

type bidChain struct {
	s        *Sched
	provider ptypes.Provider
	provAddr sdk.AccAddress
	other    sdk.AccAddress
	tenant   sdk.AccAddress
	auditor  sdk.AccAddress
	orders   map[string]*mOrder
	okeys    []string
	outbox   []interface{}
	attested bool // auditor has signed the provider's attributes
}

func testAddr(i int) sdk.AccAddress {
	b := make([]byte, 20)
	for j := range b {
		b[j] = byte(i*37 + j + 1)
	}
	return sdk.AccAddress(b)
}

func newBidChain(s *Sched) *bidChain {
	m := &bidChain{s: s, orders: map[string]*mOrder{}, provAddr: testAddr(1), other: testAddr(2), tenant: testAddr(3), auditor: testAddr(4)}
	m.provider = ptypes.Provider{Owner: m.provAddr.String(), HostURI: "https://p.example.com", Attributes: atypes.Attributes{{Key: "region", Value: "us"}}}
	return m
}

func (m *bidChain) order(id mtypes.OrderID) *mOrder { return m.orders[mquery.OrderPath(id)] }

func simpleGroupSpec(name string, price int64, count uint32) dtypes.GroupSpec {
	return dtypes.GroupSpec{Name: name, Resources: []dtypes.Resource{{
		Resources: atypes.ResourceUnits{
			CPU:     &atypes.CPU{Units: atypes.NewResourceValue(100)},
			Memory:  &atypes.Memory{Quantity: atypes.NewResourceValue(16 * unit.Mi)},
			Storage: &atypes.Storage{Quantity: atypes.NewResourceValue(64 * unit.Mi)},
		},
		Count: count,
		Price: sdk.NewInt64Coin("uakt", price),
	}}}
}

// ------------------------------------------------------------------ stubs handed to the bid engine

type bidQuery struct {
	client.QueryClient // nil: any query the harness does not model panics loudly
	m                  *bidChain
	inc                int
}

func (q *bidQuery) Group(ctx context.Context, in *dtypes.QueryGroupRequest, _ ...grpcCallOption) (*dtypes.QueryGroupResponse, error) {
	v, err := q.m.s.Do(ctx, q.inc, "Query.Group", fmt.Sprintf("Query.Group %d/%d", in.ID.DSeq, in.ID.GSeq), in)
	if err != nil {
		return nil, err
	}
	return v.(*dtypes.QueryGroupResponse), nil
}

func (q *bidQuery) Bid(ctx context.Context, in *mtypes.QueryBidRequest, _ ...grpcCallOption) (*mtypes.QueryBidResponse, error) {
	v, err := q.m.s.Do(ctx, q.inc, "Query.Bid", fmt.Sprintf("Query.Bid %s", mquery.OrderPath(in.ID.OrderID())), in)
	if err != nil {
		return nil, err
	}
	return v.(*mtypes.QueryBidResponse), nil
}

func (q *bidQuery) Orders(ctx context.Context, in *mtypes.QueryOrdersRequest, _ ...grpcCallOption) (*mtypes.QueryOrdersResponse, error) {
	v, err := q.m.s.Do(ctx, q.inc, "Query.Orders", "Query.Orders", in)
	if err != nil {
		return nil, err
	}
	return v.(*mtypes.QueryOrdersResponse), nil
}

func (q *bidQuery) ProviderAuditorAttributes(ctx context.Context, in *audittypes.QueryProviderAuditorRequest, _ ...grpcCallOption) (*audittypes.QueryProvidersResponse, error) {
	v, err := q.m.s.Do(ctx, q.inc, "Query.ProviderAuditorAttributes", "Query.ProviderAuditorAttributes "+in.Auditor[len(in.Auditor)-4:], in)
	if err != nil {
		return nil, err
	}
	return v.(*audittypes.QueryProvidersResponse), nil
}

type bidTx struct {
	m   *bidChain
	inc int
}

func (t *bidTx) Broadcast(ctx context.Context, msgs ...sdk.Msg) error {
	if len(msgs) != 1 {
		panic("harness: broadcast of several messages not modelled")
	}
	var key string
	switch msg := msgs[0].(type) {
	case *mtypes.MsgCreateBid:
		key = "Tx.CreateBid " + mquery.OrderPath(msg.Order)
	case *mtypes.MsgCloseBid:
		key = "Tx.CloseBid " + mquery.OrderPath(msg.BidID.OrderID())
	default:
		panic(fmt.Sprintf("harness: unexpected broadcast %T", msg))
	}
	_, err := t.m.s.Do(ctx, t.inc, "Tx.Broadcast", key, msgs[0])
	return err
}

type bidClient struct {
	q  *bidQuery
	tx *bidTx
}

func (c *bidClient) Query() client.QueryClient { return c.q }
func (c *bidClient) Tx() broadcaster.Client    { return c.tx }

type reservation struct {
	oid mtypes.OrderID
	res atypes.ResourceGroup
}

func (r *reservation) OrderID() mtypes.OrderID         { return r.oid }
func (r *reservation) Resources() atypes.ResourceGroup { return r.res }

type bidCluster struct {
	m   *bidChain
	inc int
}

func (c *bidCluster) Reserve(oid mtypes.OrderID, rg atypes.ResourceGroup) (ctypes.Reservation, error) {
	v, err := c.m.s.Do(nil, c.inc, "Cluster.Reserve", "Cluster.Reserve "+mquery.OrderPath(oid), oid)
	if err != nil {
		return nil, err
	}
	_ = v
	return &reservation{oid: oid, res: rg}, nil
}

func (c *bidCluster) Unreserve(oid mtypes.OrderID) error {
	_, err := c.m.s.Do(nil, c.inc, "Cluster.Unreserve", "Cluster.Unreserve "+mquery.OrderPath(oid), oid)
	return err
}

type bidPricing struct {
	m   *bidChain
	inc int
}

func (p *bidPricing) CalculatePrice(ctx context.Context, owner string, gspec *dtypes.GroupSpec) (sdk.Coin, error) {
	v, err := p.m.s.Do(ctx, p.inc, "Pricing.CalculatePrice", "Pricing.CalculatePrice "+gspec.Name, gspec)
	if err != nil {
		return sdk.Coin{}, err
	}
	return v.(sdk.Coin), nil
}

// ------------------------------------------------------------------ the scenario

type bidIncarnation struct {
	n      int
	bus    pubsub.Bus
	sub    pubsub.Subscriber
	svc    bidengine.Service
	cancel context.CancelFunc
	won    map[string]bool // orders for which this incarnation announced LeaseWon
	dead   bool
}

type c13 struct {
	r   *core.Run
	s   *Sched
	m   *bidChain
	cur *bidIncarnation
	all []*bidIncarnation
	cfg struct {
		bidTimeout time.Duration
		loss       bool
		faults     int
		maxOrders  int
	}
	nextDSeq  uint64
	secondBid string
	// lookups that found a bid already closed: nothing is left to close for those
	closedLookups map[int]bool
}

// groupMaxPrice: the order's maximum price, computed independently of GroupSpec.Price().
func groupMaxPrice(gs dtypes.GroupSpec) sdk.Coin {
	total := sdk.ZeroInt()
	for _, res := range gs.Resources {
		total = total.Add(res.Price.Amount.MulRaw(int64(res.Count)))
	}
	return sdk.NewCoin(gs.Resources[0].Price.Denom, total)
}

var errOrderGone = errors.New("rpc error: code = Unknown desc = order not open")

func (x *c13) respond(c *Call) (interface{}, error) {
	m := x.m
	r := x.r
	switch c.Method {
	case "Query.Group":
		in := c.Args.(*dtypes.QueryGroupRequest)
		for _, k := range m.okeys {
			o := m.orders[k]
			if o.ID.GroupID().Equals(in.ID) {
				return &dtypes.QueryGroupResponse{Group: o.Group}, nil
			}
		}
		return nil, errors.New("rpc error: code = NotFound desc = group not found")
	case "Query.Bid":
		in := c.Args.(*mtypes.QueryBidRequest)
		o := m.order(in.ID.OrderID())
		if o != nil && o.BidOnChain {
			r.Count("probe:catchup-found-existing-bid")
			return &mtypes.QueryBidResponse{Bid: mtypes.Bid{BidID: in.ID, State: mtypes.BidOpen, Price: o.BidPrice}}, nil
		}
		if o != nil && o.BidEver {
			// the record of a bid that was closed while the order stayed open is still on chain
			r.Count("probe:catchup-found-closed-bid")
			if x.closedLookups == nil {
				x.closedLookups = map[int]bool{}
			}
			x.closedLookups[c.ID] = true
			return &mtypes.QueryBidResponse{Bid: mtypes.Bid{BidID: in.ID, State: mtypes.BidClosed, Price: o.BidPrice}}, nil
		}
		return nil, errors.New("rpc error: code = NotFound desc = invalid bid: bid not found: key not found")
	case "Query.Orders":
		res := &mtypes.QueryOrdersResponse{}
		for _, k := range m.okeys {
			o := m.orders[k]
			res.Orders = append(res.Orders, mtypes.Order{OrderID: o.ID, State: o.State, Spec: o.Group.GroupSpec})
		}
		return res, nil
	case "Query.ProviderAuditorAttributes":
		if !m.attested {
			return nil, errors.New("rpc error: code = Unknown desc = invalid provider: address not found")
		}
		in := c.Args.(*audittypes.QueryProviderAuditorRequest)
		return &audittypes.QueryProvidersResponse{Providers: audittypes.Providers{{Owner: in.Owner, Auditor: in.Auditor, Attributes: m.provider.Attributes}}}, nil
	case "Tx.Broadcast":
		switch msg := c.Args.(type) {
		case *mtypes.MsgCreateBid:
			o := m.order(msg.Order)
			if o == nil || o.State != mtypes.OrderOpen {
				return nil, errOrderGone
			}
			if o.BidEver && !o.BidOnChain && x.secondBid == "" {
				// the chain keeps the closed bid's record: a second bid for the order is refused there,
				// and "at most one bid per order" is broken here
				x.secondBid = fmt.Sprintf("create-bid for %s broadcast at step %d by incarnation %d although the provider had already bid on this order (that bid was closed, the order stayed open)", mquery.OrderPath(msg.Order), c.Start, c.Inc)
				return nil, errors.New("rpc error: invalid bid: bid exists for provider")
			}
			if o.BidOnChain {
				// the provider (this or an earlier incarnation of it) already has a bid on this order
				if x.secondBid == "" {
					x.secondBid = fmt.Sprintf("create-bid for %s broadcast at step %d by incarnation %d while the provider's bid (%s) was on chain", mquery.OrderPath(msg.Order), c.Start, c.Inc, o.BidPrice)
				}
				return nil, errors.New("rpc error: invalid bid: bid exists for provider")
			}
			o.BidOnChain = true
			o.BidEver = true
			o.BidPrice = msg.Price
			return nil, nil
		case *mtypes.MsgCloseBid:
			o := m.order(msg.BidID.OrderID())
			if o == nil || !o.BidOnChain {
				return nil, errors.New("rpc error: unknown bid")
			}
			o.BidOnChain = false
			return nil, nil
		}
	case "Cluster.Reserve", "Cluster.Unreserve":
		return nil, nil
	case "Pricing.CalculatePrice":
		gs := c.Args.(*dtypes.GroupSpec)
		max := groupMaxPrice(*gs).Amount.Int64()
		switch r.Weighted([]int{5, 2, 2, 2}, "price") {
		case 0:
			return sdk.NewInt64Coin("uakt", max), nil
		case 1:
			return sdk.NewInt64Coin("uakt", 1), nil
		case 2:
			if max > 1 {
				return sdk.NewInt64Coin("uakt", max-1), nil
			}
			return sdk.NewInt64Coin("uakt", max), nil
		default:
			r.Count("probe:price-above-max")
			return sdk.NewInt64Coin("uakt", max+1), nil
		}
	}
	panic("harness: no response for " + c.Method)
}

// newIncarnation prepares a provider process (bus, observer subscription, stubs) and returns the
// function that starts the bid engine in it (blocking on the existing-orders query).
func (x *c13) newIncarnation() (*bidIncarnation, func() (bidengine.Service, error)) {
	x.s.Inc++
	inc := &bidIncarnation{n: x.s.Inc, won: map[string]bool{}}
	inc.bus = pubsub.NewBus()
	var err error
	inc.sub, err = inc.bus.Subscribe()
	if err != nil {
		panic(err)
	}
	cl := &bidClient{q: &bidQuery{m: x.m, inc: inc.n}, tx: &bidTx{m: x.m, inc: inc.n}}
	prov := x.m.provider
	sess := session.New(log.NewNopLogger(), cl, &prov)
	ctx, cancel := context.WithCancel(context.Background())
	inc.cancel = cancel
	cfg := bidengine.Config{PricingStrategy: &bidPricing{m: x.m, inc: inc.n}, Deposit: sdk.NewInt64Coin("uakt", 5000000), BidTimeout: x.cfg.bidTimeout}
	return inc, func() (bidengine.Service, error) {
		return bidengine.NewService(ctx, sess, &bidCluster{m: x.m, inc: inc.n}, inc.bus, cfg)
	}
}

func (x *c13) startIncarnation() *core.Violation {
	inc, start := x.newIncarnation()
	// NewService performs a blocking chain query (existing orders): run it on its own goroutine and
	// let the scheduler complete the query.
	type res struct {
		svc bidengine.Service
		err error
	}
	ch := make(chan res, 1)
	go func() {
		svc, err := start()
		ch <- res{svc, err}
	}()
	x.s.Settle()
	for _, c := range x.s.Pending() {
		if c.Method == "Query.Orders" && c.Inc == inc.n {
			x.s.Complete(c, nil)
		}
	}
	x.s.Settle()
	select {
	case rr := <-ch:
		if rr.err != nil {
			panic(rr.err)
		}
		inc.svc = rr.svc
	default:
		panic("harness: bidengine.NewService did not return after its order query completed")
	}
	x.cur = inc
	x.all = append(x.all, inc)
	x.r.Logf("incarnation %d started (orders on chain: %d)", inc.n, len(x.m.okeys))
	return nil
}

// drainObserved reads what the harness subscriber has seen so far (LeaseWon announcements).
func (x *c13) drainObserved(inc *bidIncarnation) {
	for {
		x.s.Settle()
		select {
		case ev := <-inc.sub.Events():
			x.noteObserved(inc, ev)
		default:
			return
		}
	}
}

func (x *c13) noteObserved(inc *bidIncarnation, ev interface{}) {
	if lw, ok := ev.(event.LeaseWon); ok {
		k := mquery.OrderPath(lw.LeaseID.OrderID())
		inc.won[k] = true
		x.r.Logf("  observed LeaseWon %s", k)
		x.r.Count("probe:lease-won-announced")
	}
}

func runC13(r *core.Run) *core.Violation {
	x := &c13{r: r, s: NewSched(r)}
	x.s.Inc = 0
	x.s.Respond = x.respond
	m := newBidChain(x.s)
	x.m = m
	// per-run knobs
	timeouts := []time.Duration{5 * time.Minute, 0, 30 * time.Second}
	x.cfg.bidTimeout = timeouts[r.Choose(len(timeouts), "knob.bidTimeout")]
	x.cfg.loss = r.Bool(25, "knob.eventloss")
	x.cfg.faults = r.Weighted([]int{3, 4, 2}, "knob.faults")
	x.cfg.maxOrders = 1 + r.Choose(3, "knob.orders")
	m.attested = r.Bool(60, "knob.attested")
	steps := 12 + r.Choose(30, "knob.steps")
	r.Logf("knobs: bidTimeout=%v eventloss=%v faults=%d maxOrders=%d attested=%v steps=%d", x.cfg.bidTimeout, x.cfg.loss, x.cfg.faults, x.cfg.maxOrders, m.attested, steps)
	// some runs start with orders (and possibly our bid) already on chain: catch-up path
	if r.Bool(30, "knob.preexisting") {
		o := x.newOrder()
		if r.Bool(65, "knob.preexisting.bid") {
			o.BidEver = true
			o.BidPrice = o.Group.GroupSpec.Price()
			// ... which an earlier incarnation may have closed again (bid timeout) while the order stayed open
			o.BidOnChain = !r.Bool(25, "knob.preexisting.bid-closed")
		}
		m.outbox = nil // the provider was not running when it was created
	}
	if v := x.startIncarnation(); v != nil {
		return v
	}
	for i := 0; i < steps; i++ {
		r.Mark()
		if r.Switch("skip.step") {
			continue
		}
		x.s.Settle()
		x.s.Tick()
		if done, v := x.step(); v != nil {
			return v
		} else if done {
			break
		}
		x.drainObserved(x.cur)
		if v := x.checkSafety(); v != nil {
			return v
		}
	}
	return x.finish()
}

func (x *c13) newOrder() *mOrder {
	r := x.r
	x.nextDSeq++
	dseqs := []uint64{1, 12, 256}
	id := mtypes.OrderID{Owner: x.m.tenant.String(), DSeq: dseqs[(int(x.nextDSeq)-1)%len(dseqs)], GSeq: 1, OSeq: 1}
	gs := simpleGroupSpec(fmt.Sprintf("g%d", x.nextDSeq), int64(1+r.Choose(50, "order.price")), uint32(1+r.Choose(2, "order.count")))
	if r.Bool(35, "order.second-entry") {
		// a second resource entry with its own unit price and replica count
		e2 := simpleGroupSpec("", int64(1+r.Choose(20, "order.price2")), uint32(1+r.Choose(3, "order.count2"))).Resources[0]
		gs.Resources = append(gs.Resources, e2)
	}
	switch r.Weighted([]int{6, 2, 2}, "order.req") {
	case 1:
		gs.Requirements.Attributes = atypes.Attributes{{Key: "region", Value: "eu"}} // provider cannot serve
	case 2:
		gs.Requirements.SignedBy.AnyOf = []string{x.m.auditor.String()}
		gs.Requirements.Attributes = atypes.Attributes{{Key: "region", Value: "us"}}
	}
	o := &mOrder{ID: id, State: mtypes.OrderOpen, Group: dtypes.Group{GroupID: id.GroupID(), State: dtypes.GroupOpen, GroupSpec: gs}}
	k := mquery.OrderPath(id)
	x.m.orders[k] = o
	x.m.okeys = append(x.m.okeys, k)
	sort.Strings(x.m.okeys)
	x.m.outbox = append(x.m.outbox, mtypes.NewEventOrderCreated(id))
	return o
}

// noiseEvent: a chain event that concerns the order's neighbourhood but not our bid - other groups,
// other order sequences, other tenants, and what competing providers do on the very same order.
func (x *c13) noiseEvent(o *mOrder) interface{} {
	r, m := x.r, x.m
	switch r.Choose(6, "noise.kind") {
	case 0: // lease for another group of the same deployment
		id := o.ID
		id.GSeq = 7
		return mtypes.NewEventLeaseCreated(mtypes.MakeLeaseID(mtypes.MakeBidID(id, m.other)), sdk.NewInt64Coin("uakt", 1))
	case 1: // closed order with another oseq
		id := o.ID
		id.OSeq = 9
		return mtypes.NewEventOrderClosed(id)
	case 2: // lease of another tenant's deployment with the same dseq
		id := o.ID
		id.Owner = m.other.String()
		return mtypes.NewEventLeaseCreated(mtypes.MakeLeaseID(mtypes.MakeBidID(id, m.provAddr)), sdk.NewInt64Coin("uakt", 1))
	case 3: // a competitor bids on the same order
		r.Count("probe:competitor-bid-event")
		return mtypes.NewEventBidCreated(mtypes.MakeBidID(o.ID, m.other), sdk.NewInt64Coin("uakt", 1))
	case 4: // a competitor withdraws its bid on the same order
		r.Count("probe:competitor-bid-event")
		return mtypes.NewEventBidClosed(mtypes.MakeBidID(o.ID, m.other), sdk.NewInt64Coin("uakt", 1))
	default: // a competitor's lease on another order sequence of the same group is closed
		id := o.ID
		id.OSeq = 9
		return mtypes.NewEventLeaseClosed(mtypes.MakeLeaseID(mtypes.MakeBidID(id, m.other)), sdk.NewInt64Coin("uakt", 1))
	}
}

// step applies exactly one stimulus chosen from everything that is enabled.
func (x *c13) step() (bool, *core.Violation) {
	r, m := x.r, x.m
	type stim struct {
		name string
		w    int
		f    func() (bool, *core.Violation)
	}
	var st []stim
	pend := x.s.Pending()
	for _, c := range pend {
		c := c
		st = append(st, stim{"complete " + c.Key, 10, func() (bool, *core.Violation) {
			x.s.Complete(c, nil)
			r.Ops++
			r.Logf("step %d: %s -> %s", x.s.Step, c.Key, okOrErr(c))
			r.Abstract("ok|" + c.Method)
			return false, nil
		}})
		if x.cfg.faults > 0 {
			fw := 3
			if c.Method == "Query.Bid" {
				fw = 9 // the existing-bid lookup of a catch-up order is issued once per order and incarnation
			}
			st = append(st, stim{"fail " + c.Key, fw, func() (bool, *core.Violation) {
				x.cfg.faults--
				x.s.Complete(c, ErrInjected)
				r.Count("fault:fail-" + c.Method)
				r.Logf("step %d: %s -> FAULT transport error", x.s.Step, c.Key)
				r.Abstract("fail|" + c.Method)
				return false, nil
			}})
		}
	}
	if len(m.outbox) > 0 {
		st = append(st, stim{"deliver", 12, func() (bool, *core.Violation) {
			ev := m.outbox[0]
			m.outbox = m.outbox[1:]
			if len(pend) > 0 {
				r.Count("probe:event-while-call-in-flight")
				for _, c := range pend {
					r.Count("probe:event-during-" + c.Method)
				}
			}
			r.Logf("step %d: deliver %s", x.s.Step, evName(ev))
			r.Abstract("deliver|" + evKind(ev))
			if err := x.cur.bus.Publish(ev); err != nil {
				panic(err)
			}
			return false, nil
		}})
		if x.cfg.loss {
			st = append(st, stim{"lose", 2, func() (bool, *core.Violation) {
				ev := m.outbox[0]
				m.outbox = m.outbox[1:]
				r.Count("fault:event-lost")
				r.Logf("step %d: LOST %s", x.s.Step, evName(ev))
				r.Abstract("lose|" + evKind(ev))
				return false, nil
			}})
		}
	}
	if len(m.okeys) < x.cfg.maxOrders {
		st = append(st, stim{"new-order", 8, func() (bool, *core.Violation) {
			o := x.newOrder()
			r.Ops++
			r.Mutating++
			r.Logf("step %d: chain: order %s created (max %s, req=%v signedby=%v)", x.s.Step, mquery.OrderPath(o.ID), o.Group.GroupSpec.Price(), o.Group.GroupSpec.Requirements.Attributes, o.Group.GroupSpec.Requirements.SignedBy)
			r.Abstract("chain|new-order")
			return false, nil
		}})
	}
	for _, k := range m.okeys {
		o := m.orders[k]
		if o.State != mtypes.OrderOpen {
			continue
		}
		st = append(st, stim{"close " + k, 3, func() (bool, *core.Violation) {
			o.State = mtypes.OrderClosed
			o.BidOnChain = false // the chain closes bids of a closed order
			m.outbox = append(m.outbox, mtypes.NewEventOrderClosed(o.ID))
			r.Ops++
			r.Mutating++
			r.Logf("step %d: chain: order %s closed", x.s.Step, k)
			r.Abstract("chain|close-order")
			return false, nil
		}})
		if o.BidOnChain {
			st = append(st, stim{"lease-ours " + k, 4, func() (bool, *core.Violation) {
				o.State = mtypes.OrderActive
				o.Leased = m.provAddr.String()
				m.outbox = append(m.outbox, mtypes.NewEventLeaseCreated(mtypes.MakeLeaseID(mtypes.MakeBidID(o.ID, m.provAddr)), o.BidPrice))
				r.Ops++
				r.Mutating++
				r.Logf("step %d: chain: lease for %s goes to US", x.s.Step, k)
				r.Abstract("chain|lease-ours")
				return false, nil
			}})
		}
		st = append(st, stim{"lease-other " + k, 3, func() (bool, *core.Violation) {
			o.State = mtypes.OrderActive
			o.Leased = m.other.String()
			o.BidOnChain = false // lost bids are closed by the chain
			m.outbox = append(m.outbox, mtypes.NewEventLeaseCreated(mtypes.MakeLeaseID(mtypes.MakeBidID(o.ID, m.other)), sdk.NewInt64Coin("uakt", 1)))
			r.Ops++
			r.Mutating++
			r.Logf("step %d: chain: lease for %s goes to ANOTHER provider", x.s.Step, k)
			r.Abstract("chain|lease-other")
			return false, nil
		}})
	}
	if len(m.okeys) > 0 {
		st = append(st, stim{"noise", 2, func() (bool, *core.Violation) {
			o := m.orders[m.okeys[r.Choose(len(m.okeys), "noise.order")]]
			ev := x.noiseEvent(o)
			m.outbox = append(m.outbox, ev)
			r.Logf("step %d: chain: noise %s", x.s.Step, evName(ev))
			r.Abstract("chain|noise")
			return false, nil
		}})
	}
	st = append(st, stim{"clock", 3, func() (bool, *core.Violation) {
		ds := []time.Duration{time.Second, 20 * time.Second, 6 * time.Minute}
		d := ds[r.Choose(len(ds), "clock.d")]
		time.Sleep(d)
		r.SimTime += int64(d / time.Millisecond)
		r.Logf("step %d: clock +%v", x.s.Step, d)
		r.Abstract("clock")
		return false, nil
	}})
	if len(x.all) < 2 && len(m.okeys) > 0 {
		st = append(st, stim{"crash", 1, func() (bool, *core.Violation) { return false, x.crashRestart() }})
	}
	st = append(st, stim{"shutdown", 1, func() (bool, *core.Violation) { return true, nil }})
	ws := make([]int, len(st))
	for i := range st {
		ws[i] = st[i].w
	}
	return st[r.Weighted(ws, "step")].f()
}

func okOrErr(c *Call) string {
	if c.OK {
		return "ok"
	}
	return fmt.Sprintf("error (%v)", c.Err)
}

func evKind(ev interface{}) string { return fmt.Sprintf("%T", ev) }

func evName(ev interface{}) string {
	switch e := ev.(type) {
	case mtypes.EventOrderCreated:
		return "EventOrderCreated " + mquery.OrderPath(e.ID)
	case mtypes.EventOrderClosed:
		return "EventOrderClosed " + mquery.OrderPath(e.ID)
	case mtypes.EventLeaseCreated:
		return fmt.Sprintf("EventLeaseCreated %s provider=..%s", mquery.OrderPath(e.ID.OrderID()), e.ID.Provider[len(e.ID.Provider)-4:])
	}
	return fmt.Sprintf("%T", ev)
}

// crashRestart: the provider process dies (nothing of it reaches the outside world any more) and is
// started again over the same chain; in-flight create-bid broadcasts may or may not have been applied.
func (x *c13) crashRestart() *core.Violation {
	r := x.r
	r.Count("fault:provider-crash-restart")
	old := x.cur
	for _, c := range x.s.Pending() {
		if c.Inc == old.n && c.Method == "Tx.Broadcast" {
			if msg, ok := c.Args.(*mtypes.MsgCreateBid); ok && r.Bool(50, "crash.applied") {
				if o := x.m.order(msg.Order); o != nil && o.State == mtypes.OrderOpen && !o.BidOnChain {
					o.BidOnChain = true
					o.BidEver = true
					o.BidPrice = msg.Price
					r.Count("probe:crash-with-bid-applied")
				}
			}
		}
	}
	old.dead = true
	x.s.Crash(old.n)
	old.cancel()
	x.s.Settle()
	// let the dead process unwind (all its calls fail immediately)
	for i := 0; i < 50 && !isDone(old.svc.Done()); i++ {
		time.Sleep(time.Second)
		x.s.Settle()
	}
	old.sub.Close()
	old.bus.Close()
	r.Logf("step %d: CRASH of incarnation %d, restart", x.s.Step, old.n)
	r.Abstract("crash")
	x.m.outbox = nil // events emitted while down are never seen
	return x.startIncarnation()
}

// checkSafety: clauses that must hold at every point of every schedule.
func (x *c13) checkSafety() *core.Violation {
	r := x.r
	if x.secondBid != "" {
		return r.Flag("C13/second-bid-same-order", "%s", x.secondBid)
	}
	perOrder := map[string][]*Call{}
	for _, c := range x.s.CallsWhere(func(c *Call) bool { _, ok := c.Args.(*mtypes.MsgCreateBid); return ok }) {
		msg := c.Args.(*mtypes.MsgCreateBid)
		k := fmt.Sprintf("%d|%s", c.Inc, mquery.OrderPath(msg.Order))
		perOrder[k] = append(perOrder[k], c)
		o := x.m.order(msg.Order)
		if o == nil {
			return r.Flag("C13/bid-for-unknown-order", "bid broadcast for an order that never existed: %s", c)
		}
		if max := groupMaxPrice(o.Group.GroupSpec); max.IsLT(msg.Price) {
			return r.Flag("C13/bid-above-max-price", "bid %s for order %s exceeds the maximum %s", msg.Price, mquery.OrderPath(msg.Order), max)
		}
		// only after resources were reserved
		reserved := false
		for _, rc := range x.s.CallsWhere(func(rc *Call) bool {
			return rc.Method == "Cluster.Reserve" && rc.Inc == c.Inc && rc.Key == "Cluster.Reserve "+mquery.OrderPath(msg.Order)
		}) {
			if rc.OK && rc.End != 0 && rc.End <= c.Start {
				reserved = true
			}
		}
		if !reserved {
			return r.Flag("C13/bid-before-reservation", "bid for %s broadcast at step %d without a completed reservation", mquery.OrderPath(msg.Order), c.Start)
		}
	}
	for k, cs := range perOrder {
		if len(cs) > 1 {
			return r.Flag("C13/second-bid-same-order", "%d create-bid broadcasts for %s within one incarnation: %v", len(cs), k, cs)
		}
	}
	return nil
}

// finish: stop injecting, shut the service down gracefully, complete everything, then check the
// obligations of every order whose handling ended without the provider having won.
func (x *c13) finish() *core.Violation {
	r := x.r
	inc := x.cur
	r.Logf("final phase: shutdown of incarnation %d", inc.n)
	closed := make(chan struct{})
	if r.Bool(35, "final.shutdown-by-context") {
		// the way the provider process shuts down: the context given to NewService is cancelled
		r.Count("probe:shutdown-by-context-cancel")
		r.Logf("final phase: the service context is cancelled")
		inc.cancel()
		go func() { <-inc.svc.Done(); close(closed) }()
	} else {
		go func() { inc.svc.Close(); close(closed) }()
	}
	budget := 400
	idle := 0
	for i := 0; i < budget; i++ {
		x.s.Settle()
		x.s.Tick()
		x.drainObserved(inc)
		if isDone(inc.svc.Done()) && len(x.s.Pending()) == 0 {
			break
		}
		p := x.s.Pending()
		if len(p) == 0 {
			idle++
			if idle > 8 {
				break // nothing moves any more
			}
			time.Sleep(10 * time.Second)
			continue
		}
		idle = 0
		// in the final phase calls complete successfully unless a fault is still in the budget
		c := p[r.Choose(len(p), "final.which")]
		if x.cfg.faults > 0 && r.Bool(25, "final.fail") {
			x.cfg.faults--
			x.s.Complete(c, ErrInjected)
			r.Count("fault:fail-" + c.Method)
			r.Logf("final: %s -> FAULT transport error", c.Key)
		} else {
			x.s.Complete(c, nil)
			r.Logf("final: %s -> %s", c.Key, okOrErr(c))
		}
		if v := x.checkSafety(); v != nil {
			return v
		}
	}
	x.s.Settle()
	if !isDone(inc.svc.Done()) {
		// Not a clause of C13 (which speaks about bids and reservations, not about the service's own
		// termination): observed when a provider-attribute fetch is in flight at shutdown (DESIGN.md S13).
		r.Count("obs:service-did-not-terminate-after-shutdown")
	}
	inc.cancel()
	x.drainObserved(inc)
	inc.sub.Close()
	inc.bus.Close()
	x.s.Settle()
	if v := x.checkSafety(); v != nil {
		return v
	}
	return x.checkObligations()
}

// checkObligations: for every order whose handling ended without the provider having won, every
// granted reservation was released and every placed bid was followed by a close-bid (call log only).
func (x *c13) checkObligations() *core.Violation {
	r := x.r
	// obligations
	for _, in := range x.all {
		if in.dead {
			continue // a crashed process cannot clean up; its reservations died with it
		}
		for _, k := range x.m.okeys {
			if in.won[k] {
				continue
			}
			var reserves, unreserves, placed, closes []*Call
			for _, c := range x.s.CallsWhere(func(c *Call) bool { return c.Inc == in.n }) {
				switch {
				case c.Key == "Cluster.Reserve "+k && c.OK:
					reserves = append(reserves, c)
				case c.Key == "Cluster.Unreserve "+k:
					unreserves = append(unreserves, c)
				case c.Key == "Tx.CreateBid "+k && c.OK:
					placed = append(placed, c)
				case c.Key == "Query.Bid "+k && c.OK:
					if !x.closedLookups[c.ID] {
						placed = append(placed, c) // open bid found at catch-up
					}
				case c.Key == "Tx.CloseBid "+k:
					// submitted = handed to the transaction client while it still takes requests; a call
					// abandoned because its own context was already cancelled never reached the broadcaster
					if !errors.Is(c.Err, context.Canceled) && !errors.Is(c.Err, context.DeadlineExceeded) {
						closes = append(closes, c)
					}
				}
			}
			for _, rc := range reserves {
				r.Count("probe:reservation-obligation")
				ok := false
				for _, u := range unreserves {
					if u.Start >= rc.End {
						ok = true
					}
				}
				if !ok {
					late := ""
					if len(unreserves) > 0 {
						late = " (an unreserve was issued before the reservation returned)"
					}
					return r.Flag("C13/reservation-leaked", "order %s ended without LeaseWon, its reservation (granted at step %d) was never released%s", k, rc.End, late)
				}
			}
			for _, pc := range placed {
				r.Count("probe:bid-obligation")
				ok := false
				for _, cl := range closes {
					if cl.Start >= pc.End {
						ok = true
					}
				}
				if !ok {
					return r.Flag("C13/bid-not-closed", "order %s ended without LeaseWon, the bid placed at step %d (%s) was never followed by a close-bid", k, pc.End, pc.Key)
				}
			}
		}
	}
	return nil
}
