package provsim

import (
	"context"
	"fmt"
	"time"

	sdk "github.com/cosmos/cosmos-sdk/types"
	"github.com/tendermint/tendermint/libs/log"

	"github.com/ovrclk/akash/provider/cluster"
	"github.com/ovrclk/akash/provider/event"
	pmanifest "github.com/ovrclk/akash/provider/manifest"
	"github.com/ovrclk/akash/provider/session"
	"github.com/ovrclk/akash/pubsub"
	atypes "github.com/ovrclk/akash/types"
	dtypes "github.com/ovrclk/akash/x/deployment/types"
	mtypes "github.com/ovrclk/akash/x/market/types"
	ptypes "github.com/ovrclk/akash/x/provider/types"

	"verifsim/core"
	"verifsim/simrt"
)

// ------------------------------------------------------------------ C20 / C10, Layer 2: the manifest service
// loop, its managers, watchdogs, the bus and its subscribers are resumed one scheduling point at a
// time; lease / update / close events are published by injector tasks and submissions are made by
// client tasks, so a submission can reach the service while the manager it addresses is between two
// states (e.g. shutting down but not yet reaped) and several events can be queued in front of it.
//
// "The provider holds a lease" is judged as far as the service can know: at every *sync point* (a
// fair drain until nothing can move, i.e. every delivered event has been consumed) the harness's
// strict view is copied; between sync points a lease counts as held if it is held in either view.

func runC20L2(r *core.Run) (*core.Violation, func() *core.Violation) {
	x := &c20{r: r, s: NewSched(r), leasesHeld: map[string]bool{}, leasesWon: map[string]bool{}, heldLoose: map[string]bool{}}
	x.l2 = true
	x.prov = testAddr(1)
	tenant := testAddr(3)
	x.did = dtypes.DeploymentID{Owner: tenant.String(), DSeq: uint64([]int{1, 12, 256}[r.Choose(3, "knob.dseq")])}
	x.faults = r.Weighted([]int{3, 3, 2}, "knob.faults")
	maxSteps := 80 + r.Choose(400, "knob.l2steps")
	actions := 3 + r.Choose(8, "knob.actions")
	ng := 1 + r.Choose(2, "knob.groups")
	for gi := 0; gi < ng; gi++ {
		gs := dtypes.GroupSpec{Name: fmt.Sprintf("grp%d", gi)}
		ru := unitOf(100, 16)
		ru.Endpoints = []atypes.Endpoint{{Kind: atypes.Endpoint_SHARED_HTTP}}
		gs.Resources = append(gs.Resources, dtypes.Resource{Resources: ru, Count: uint32(1 + r.Choose(3, "knob.count")), Price: sdk.NewInt64Coin("uakt", 1)})
		x.groups = append(x.groups, dtypes.Group{GroupID: dtypes.MakeGroupID(x.did, uint32(gi+1)), State: dtypes.GroupOpen, GroupSpec: gs})
	}
	x.curManifest = x.buildManifest(0)
	x.versions = []mfVersion{{hash: canonicalHash(x.curManifest), from: 0, m: x.curManifest}}
	if r.Bool(50, "knob.fetch-ignores-cancel") {
		x.s.NoCancel = map[string]bool{"Query.Deployment": true}
	}
	x.s.Respond = func(c *Call) (interface{}, error) {
		if c.Method == "Query.Deployment" {
			x.fetchOK = true
			cur := x.versions[len(x.versions)-1].hash
			if !x.cleanup && r.Bool(40, "fetch.served-at-issue") { // never draw in the free-running cleanup
				for i := len(x.versions) - 1; i >= 0; i-- {
					if x.versions[i].from <= c.Start {
						cur = x.versions[i].hash
						break
					}
				}
			}
			return &dtypes.QueryDeploymentResponse{Deployment: dtypes.Deployment{DeploymentID: x.did, State: dtypes.DeploymentActive, Version: append([]byte{}, cur...)}, Groups: x.groups}, nil
		}
		return nil, nil
	}
	simrt.Enable(r)
	released := false
	release := func() {
		if !released {
			released = true
			simrt.ReleaseAll()
		}
	}
	ctx, cancel := context.WithCancel(context.Background())
	x.cancel = cancel
	defer func() {
		x.cleanup = true
		release()
		x.cancel()
		for i := 0; i < 100 && x.svc != nil; i++ {
			x.s.Settle()
			if isDone(x.svc.Done()) {
				break
			}
			for _, c := range x.s.Pending() {
				x.s.Complete(c, nil)
			}
			time.Sleep(time.Second)
		}
		if x.sub != nil {
			x.sub.Close()
		}
		if x.bus != nil {
			x.bus.Close()
		}
		x.s.Settle()
	}()
	loop := &l2Loop{r: r, s: x.s}
	setup := false
	simrt.Go("setup", func() {
		x.bus = pubsub.NewBus()
		var err error
		x.sub, err = x.bus.Subscribe()
		if err != nil {
			panic(err)
		}
		prov := ptypes.Provider{Owner: x.prov.String()}
		sess := session.New(log.NewNopLogger(), &mfClient{q: &mfQuery{x: x}, tx: &mfTx{x: x}}, &prov)
		cfg := pmanifest.ServiceConfig{ManifestTimeout: []time.Duration{0, 2 * time.Minute}[r.Choose(2, "knob.watchdog")]}
		hs := &cluster.SimpleHostnames{Hostnames: map[string]dtypes.DeploymentID{}}
		x.svc, err = pmanifest.NewService(ctx, sess, &tapBus{Bus: x.bus, x: x}, hs, cfg)
		if err != nil {
			panic(err)
		}
		setup = true
	})
	loop.drain(300, func() bool { return setup })
	if !setup {
		panic("harness: C20 L2 setup did not complete")
	}
	r.Logf("L2 knobs: groups=%d steps=%d faults=%d actions=%d no-cancel=%v", ng, maxSteps, x.faults, actions, x.s.NoCancel != nil)
	// the chain's event stream is ordered: one injector task publishes the queued events in order
	injecting := 0
	var outbox []interface{}
	stopInject := false
	inject := func(name string, ev interface{}) {
		injecting++
		outbox = append(outbox, ev)
	}
	simrt.Go("chain-events", func() {
		for !stopInject {
			simrt.Yield("inject-wait")
			if stopInject {
				return
			}
			if len(outbox) == 0 {
				continue
			}
			ev := outbox[0]
			outbox = outbox[1:]
			if typed, ok := x.viaChain(ev); ok {
				if r.KeepLog {
					r.Logf("    injector publishes %T %+v", typed, typed)
				}
				if err := x.bus.Publish(typed); err != nil {
					return
				}
			}
			injecting--
		}
	})
	defer func() { stopInject = true }()
	loop.faults = x.faults
	loop.idle = func(g *simrt.G) bool { return g.Name == "chain-events" && len(outbox) == 0 }
	loop.idleSteps = r.Bool(40, "knob.l2-sparse-schedule")
	loop.failable = func(c *Call) bool { return c.Method == "Query.Deployment" }
	loop.extra = func() []l2Stim {
		var st []l2Stim
		if actions > 0 {
			if len(x.submits) < 6 {
				kinds := []string{"valid", "valid", "valid", "previous-version", "stale-version", "bad-count", "empty"}
				st = append(st, l2Stim{"submit", 6, func() {
					actions--
					x.submit(kinds[r.Choose(len(kinds), "sub.kind")])
				}})
			}
			for gi := range x.groups {
				gi := gi
				lp := x.leasePath(gi)
				if !x.leasesWon[lp] {
					st = append(st, l2Stim{"leasewon", 5, func() {
						actions--
						g := x.groups[gi]
						x.leasesWon[lp] = true
						x.leasesHeld[lp] = true
						x.heldLoose[lp] = true
						r.Ops++
						r.Mutating++
						r.Logf("step %d: inject LeaseWon %s", x.s.Step, lp)
						inject("inject-leasewon", event.LeaseWon{LeaseID: x.leaseID(gi), Group: &g, Price: sdk.NewInt64Coin("uakt", 1)})
					}})
				}
				if x.leasesHeld[lp] {
					st = append(st, l2Stim{"leaseclosed", 2, func() {
						actions--
						delete(x.leasesHeld, lp)
						r.Ops++
						r.Mutating++
						r.Logf("step %d: inject EventLeaseClosed %s", x.s.Step, lp)
						inject("inject-leaseclosed", mtypes.NewEventLeaseClosed(x.leaseID(gi), sdk.NewInt64Coin("uakt", 1)))
					}})
				}
			}
			if !x.closed {
				st = append(st, l2Stim{"update", 3, func() {
					actions--
					nm := x.nextManifest()
					x.curManifest = nm
					x.versions = append(x.versions, mfVersion{hash: canonicalHash(nm), from: x.s.Step, m: nm})
					r.Ops++
					r.Mutating++
					r.Logf("step %d: inject EventDeploymentUpdated v%d", x.s.Step, len(x.versions)-1)
					inject("inject-update", dtypes.NewEventDeploymentUpdated(x.did, x.versions[len(x.versions)-1].hash))
				}})
				st = append(st, l2Stim{"depclosed", 2, func() {
					actions--
					x.closed = true
					x.leasesHeld = map[string]bool{}
					r.Ops++
					r.Mutating++
					r.Count("probe:l2-deployment-closed")
					r.Logf("step %d: inject EventDeploymentClosed", x.s.Step)
					inject("inject-depclosed", dtypes.NewEventDeploymentClosed(x.did))
				}})
			}
		}
		st = append(st, l2Stim{"clock", 1, func() {
			d := []time.Duration{time.Second, 40 * time.Second, 3 * time.Minute}[r.Choose(3, "clock.d")]
			time.Sleep(d)
			r.SimTime += int64(d / time.Millisecond)
			r.Logf("step %d: clock +%v", x.s.Step, d)
		}})
		// sync point: let everything that can move finish, then the service has seen every event
		if injecting == 0 {
			st = append(st, l2Stim{"sync", 2, func() {
				loop.drainNoComplete(60)
				x.s.Settle()
				// quiescent with no call parked at the harness: no goroutine waits for anything from outside, so
				// the service loop sits in its select with its subscription drained (a call still parked -
				// a watchdog's close-bid, say - may have the service blocked behind it with events unread)
				if len(loop.busyRunnable()) == 0 && len(x.s.Pending()) == 0 {
					x.heldLoose = map[string]bool{}
					for k := range x.leasesHeld {
						x.heldLoose[k] = true
					}
					x.lastSync = x.s.Step
					r.Count("probe:l2-sync-points")
					r.Logf("step %d: sync point (held: %d)", x.s.Step, len(x.leasesHeld))
				} else {
					r.Logf("step %d: sync attempted, still runnable: %v", x.s.Step, loop.busyRunnable())
				}
			}})
		}
		return st
	}
	loop.onStep = func() *core.Violation { return x.observe() }
	quietSince := -1
	if v := loop.run(maxSteps, func() bool {
		if actions == 0 && injecting == 0 {
			if quietSince < 0 {
				quietSince = loop.steps
			}
			return loop.steps-quietSince > 80
		}
		return false
	}); v != nil {
		return v, nil
	}
	// fair drain under the scheduler: every fetch answers, every goroutine gets its turn
	for round := 0; round < 40; round++ {
		open := 0
		loop.drain(40, func() bool {
			open = 0
			for _, s := range x.submits {
				if !isDone(s.done) {
					open++
				}
			}
			return open == 0 && len(x.s.Pending()) == 0 && injecting == 0
		})
		x.s.Settle()
		if v := x.observe(); v != nil {
			return v, nil
		}
		if open == 0 && len(x.s.Pending()) == 0 && injecting == 0 {
			break
		}
		time.Sleep(5 * time.Second)
	}
	x.s.Settle()
	if v := x.observe(); v != nil {
		return v, nil
	}
	r.SimTime += int64(loop.steps)
	r.Count("probe:l2-runs-completed")
	for _, s := range x.submits {
		if !s.returned {
			return x.flag("C20/submit-never-answered", "submit #%d (%s) issued at step %d got no reply although every goroutine was scheduled fairly and every fetch answered (L2)", s.id, s.kind, s.issuedAt), nil
		}
	}
	r.Abstract(fmt.Sprintf("l2 submits=%d versions=%d announced=%d", len(x.submits), len(x.versions), len(x.announced)))
	return nil, nil
}
