package provsim

import (
	"fmt"
	"strings"
	"testing"
	"testing/synctest"

	"google.golang.org/grpc"

	"verifsim/core"
)

type grpcCallOption = grpc.CallOption

// Engine runs one scenario per property inside a synctest bubble.
type Engine struct{ T *testing.T }

func (Engine) Name() string { return "provsim" }

func (Engine) Properties() []string { return []string{"C13", "C15"} }

func (e Engine) Execute(r *core.Run) (v *core.Violation) {
	var fn func(*core.Run) *core.Violation
	switch r.Property {
	case "C13":
		fn = runC13
	case "C15":
		fn = runC15
	default:
		panic("provsim: no scenario for " + r.Property)
	}
	defer func() {
		// the bubble panics when goroutines are still blocked at its end; that is only acceptable
		// when the run already ended with a violation (e.g. a reported hang)
		if p := recover(); p != nil {
			// goroutines of the code under test that are still blocked when the bubble ends (e.g. the
			// bid engine's attribute service never completes its shutdown when a fetch was in flight,
			// DESIGN.md S13) are not a verdict: they stay parked in the dead bubble; counted only.
			msg := fmt.Sprint(p)
			if strings.Contains(msg, "deadlock") {
				r.Count("obs:goroutines-blocked-at-bubble-end")
				return
			}
			panic(p)
		}
	}()
	synctest.Test(e.T, func(t *testing.T) { v = fn(r) })
	return v
}

func (Engine) Describe(property string) core.Description {
	d := core.Description{
		Real: []string{"pubsub bus", "go-lifecycle", "util/runner"},
		Assumptions: []string{"Layer 1: exactly one stimulus is applied per quiescent point (actor-level schedule); interleavings inside the propagation of one stimulus are not explored",
			"simulation binaries use Go >= 1.23 synchronous timer channels (main module go 1.26.8), the shipped binary is built from a go 1.16 module",
			"chain events reach the provider in order and at most once (may be lost or delayed)", "sampling: held on everything explored, not a proof"},
		SimTimeUnit: "ms", QuickRuns: 4000, ThoroughRuns: 400000, QuickBudgetS: 100, ThoroughBudget: 1200,
	}
	switch property {
	case "C13":
		d.Rule = "Each run starts the real bidengine.NewService over a real pubsub bus with scripted chain/cluster/pricing stubs whose every call parks until the seeded scheduler completes it (ok or transport error), " +
			"creates 1-3 orders (some pre-existing, some with our bid already on chain) and applies 12-41 stimuli, one per quiescent point: complete/fail a parked call, deliver/lose the next chain event, " +
			"close an order, give the lease to us / to another provider, noise events, clock jumps (bid timeout), provider crash+restart, shutdown; then a graceful shutdown and drain."
		d.Real = append(d.Real, "provider/bidengine service, order monitor, provider-attribute cache")
		d.Stub = []string{"chain query/broadcast client (tiny chain model)", "cluster.Cluster Reserve/Unreserve (recording)", "BidPricingStrategy (price chosen by the scheduler: at/below/above max)"}
		d.RequiredProbes = []string{"probe:event-while-call-in-flight", "probe:event-during-Cluster.Reserve", "probe:event-during-Tx.Broadcast", "probe:event-during-Query.Group",
			"probe:event-during-Pricing.CalculatePrice", "probe:lease-won-announced", "probe:reservation-obligation", "probe:bid-obligation", "probe:catchup-found-existing-bid",
			"probe:price-above-max", "fault:provider-crash-restart", "fault:fail-Cluster.Reserve", "fault:fail-Tx.Broadcast", "fault:fail-Query.Group", "fault:fail-Pricing.CalculatePrice", "fault:event-lost"}
	case "C15":
		d.Rule = "Layer 1: sequential histories of 10-49 operations (publish unique event, subscribe, clone, read one / verify nothing to read, close subscriber, close bus) on the real pubsub bus, " +
			"each operation run on its own goroutine and required to return by the next quiescent point, compared operation by operation with a per-subscriber queue model."
		d.Stub = []string{"none (publishers and readers are harness tasks)"}
		d.RequiredProbes = []string{"probe:clone-with-undelivered-events", "probe:clone-after-partial-read", "probe:read-on-empty", "probe:read-while-other-subscriber-stalled",
			"probe:close-with-undelivered-events", "probe:close-subscriber-with-clones", "probe:bus-closed"}
	}
	return d
}
