package provsim

import (
	"fmt"
	"os"
	"strings"
	"testing"
	"testing/synctest"

	"google.golang.org/grpc"

	"verifsim/core"
)

type grpcCallOption = grpc.CallOption

// Engine runs one scenario per property inside a synctest bubble.
type Engine struct{ T *testing.T }

func (Engine) Name() string { return "provsim" }

func (Engine) Properties() []string { return []string{"C10", "C12", "C13", "C14", "C15", "C20"} }

func (e Engine) Execute(r *core.Run) (v *core.Violation) {
	var fn func(*core.Run) *core.Violation
	var fn2 func(*core.Run) (*core.Violation, func() *core.Violation)
	// with the instrumented build every other run is a goroutine-level (Layer 2) run
	l2 := layer2Available() && r.Index%2 == 1
	if r.Cfgs("layer", "") == "1" {
		l2 = false
	}
	if r.Cfgs("layer", "") == "2" {
		l2 = layer2Available()
	}
	switch r.Property {
	case "C13":
		fn = runC13
		if l2 {
			fn2 = runC13L2
		}
	case "C15":
		fn = runC15
		if l2 {
			fn2 = runC15L2
		}
	case "C14":
		fn = runC14
		if l2 {
			fn2 = runC14L2
		}
	case "C12":
		fn = runC12
	case "C20", "C10":
		fn = runC20
		if l2 {
			fn2 = runC20L2
		}
	default:
		panic("provsim: no scenario for " + r.Property)
	}
	var post func() *core.Violation
	func() {
		defer func() {
			// goroutines of the code under test that are still blocked when the bubble ends (e.g. the
			// bid engine's attribute service never completes its shutdown when a fetch was in flight,
			// DESIGN.md S13) are not a verdict: they stay parked in the dead bubble; counted only.
			if p := recover(); p != nil {
				msg := fmt.Sprint(p)
				if strings.Contains(msg, "deadlock") {
					r.Count("obs:goroutines-blocked-at-bubble-end")
					return
				}
				panic(p)
			}
		}()
		synctest.Test(e.T, func(t *testing.T) {
			if fn2 != nil {
				r.Count("l2:runs")
				v, post = fn2(r)
			} else {
				v = fn(r)
			}
		})
	}()
	if v == nil && post != nil {
		v = post()
	}
	return v
}

func (Engine) Describe(property string) core.Description {
	d := describe(property)
	switch property {
	case "C10", "C13", "C14", "C15", "C20":
		if layer2Available() {
			d.Rule += "  LAYER 2 (every second run): the provider's actor files and go-lifecycle are instrumented by yieldgen so that every go statement, channel operation and select is a scheduling point; " +
				"the seeded scheduler resumes exactly one parked goroutine (or completes one parked call, or injects one event through a task) per decision, ready select cases are polled in an order drawn from the choice stream."
			d.Extra = map[string]interface{}{"layer2": "active"}
			if property == "C15" {
				d.RequiredProbes = append(d.RequiredProbes, "probe:l2-histories", "probe:l2-history-with-clone")
			} else if property == "C20" || property == "C10" {
				d.RequiredProbes = append(d.RequiredProbes, "probe:l2-runs-completed", "probe:l2-sync-points", "probe:l2-deployment-closed")
			} else if property == "C13" {
				d.RequiredProbes = append(d.RequiredProbes, "probe:l2-runs-completed", "probe:l2-event-published-with-more-queued", "probe:l2-chain-close-while-call-in-flight")
			} else {
				d.RequiredProbes = append(d.RequiredProbes, "probe:l2-runs-completed", "probe:l2-close-before-first-deploy-started", "probe:l2-close-during-deploy", "probe:l2-update-during-deploy")
			}
		} else {
			reason := os.Getenv("VERIF_LAYER2_REASON")
			if reason == "" {
				reason = "binary built without the yieldgen overlay"
			}
			d.Extra = map[string]interface{}{"layer2": "unavailable: " + reason}
		}
	}
	return d
}

func describe(property string) core.Description {
	d := core.Description{
		Real: []string{"pubsub bus", "go-lifecycle", "util/runner"},
		Assumptions: []string{"Layer 1: exactly one stimulus is applied per quiescent point (actor-level schedule); interleavings inside the propagation of one stimulus are not explored",
			"simulation binaries use Go >= 1.23 synchronous timer channels (main module go 1.26.8), the shipped binary is built from a go 1.16 module",
			"chain events reach the provider in order and at most once (may be lost or delayed)", "sampling: held on everything explored, not a proof"},
		SimTimeUnit: "ms", QuickRuns: 20000, ThoroughRuns: 1200000, QuickBudgetS: 100, ThoroughBudget: 900,
	}
	switch property {
	case "C13":
		d.Rule = "Each run starts the real bidengine.NewService over a real pubsub bus with scripted chain/cluster/pricing stubs whose every call parks until the seeded scheduler completes it (ok or transport error), " +
			"creates 1-3 orders (some pre-existing, some with our bid already on chain) and applies 12-41 stimuli, one per quiescent point: complete/fail a parked call, deliver/lose the next chain event, " +
			"close an order, give the lease to us / to another provider, noise events, clock jumps (bid timeout), provider crash+restart, shutdown; then a graceful shutdown and drain."
		d.Real = append(d.Real, "provider/bidengine service, order monitor, provider-attribute cache")
		d.Stub = []string{"chain query/broadcast client (tiny chain model)", "cluster.Cluster Reserve/Unreserve (recording)", "BidPricingStrategy (price chosen by the scheduler: at/below/above max)"}
		d.RequiredProbes = []string{"probe:event-while-call-in-flight", "probe:event-during-Cluster.Reserve", "probe:event-during-Tx.Broadcast", "probe:event-during-Query.Group",
			"probe:event-during-Pricing.CalculatePrice", "probe:lease-won-announced", "probe:reservation-obligation", "probe:bid-obligation", "probe:catchup-found-existing-bid",
			"probe:price-above-max", "fault:provider-crash-restart", "fault:fail-Cluster.Reserve", "fault:fail-Tx.Broadcast", "fault:fail-Query.Group", "fault:fail-Pricing.CalculatePrice", "fault:event-lost"}
	case "C12":
		d.Rule = "Each run starts the real cluster.NewService (inventoryService reached through Service.Reserve/Unreserve/Status) with per-run commit levels (unset,1,1.5,2,10) and external-port quantity; 12-46 stimuli, one per quiescent point: " +
			"Reserve (1-3 resource units, counts 1-3, 0-2 endpoints; sometimes a second one for the same order), Unreserve, Status, completion ok (1-4 nodes with drawn capacities) or error of the parked Inventory call, " +
			"ClusterDeployment deployed/pending events, clock jumps (poll timer)."
		d.Real = append(d.Real, "provider/cluster service + inventoryService + reservation", "types.ResourceUnits arithmetic", "cluster/util.ComputeCommittedResources")
		d.Stub = []string{"cluster.Client.Inventory (parked, node capacities drawn at completion)"}
		d.RequiredProbes = []string{"probe:reserve-granted", "probe:reserve-refused", "probe:grant-with-other-pending-reservations", "probe:repeated-status-of-multi-unit-reservation",
			"probe:deployment-status-event", "probe:reserve-while-inventory-in-flight", "fault:inventory-error"}
		d.Assumptions = append(d.Assumptions, "commit-level scaling is checked in its weakest reading (floor(v/level), at least 1); the packing search is exact up to a node budget (exhaustions counted, never reported)")
	case "C14":
		d.Rule = "Each run starts the real cluster.NewService (service loop, inventory, hostname service, deployment managers, monitors, withdrawal) over a real bus with a scripted cluster client whose Deploy/TeardownLease/" +
			"Inventory/LeaseStatus calls park until the seeded scheduler completes or fails them; 1-2 leases; 10-44 stimuli, one per quiescent point: ManifestReceived (first and updates), EventLeaseClosed, completion ok/error of any parked call, " +
			"clock jumps (health checks, teardown back-off, inventory poll), LeaseWithdrawNow; then a fair drain (no more faults) within a bounded number of rounds."
		d.Real = append(d.Real, "provider/cluster service, deploymentManager, deploymentMonitor, deploymentWithdrawal, inventoryService, hostnameService", "avast/retry-go")
		d.Stub = []string{"cluster.Client (Deploy/TeardownLease/Inventory/LeaseStatus parked, interval log)", "chain client (broadcasts parked)"}
		d.RequiredProbes = []string{"probe:update-during-deploy", "probe:update-when-idle", "probe:close-during-deploy", "probe:close-before-any-manifest", "probe:teardown-obligation-met",
			"probe:latest-manifest-obligation-met", "probe:hostnames-release-checked", "fault:fail-Cluster.Deploy", "fault:fail-Cluster.TeardownLease"}
	case "C20", "C10":
		d.Rule = "Each run starts the real manifest.NewService (service loop, per-deployment manager, watchdog) over a real bus; a deployment with 1-2 groups whose on-chain version is the hash of a manifest derived from the groups " +
			"(records split into several services, reordered); 10-39 stimuli, one per quiescent point: LeaseWon, Submit from independent client tasks (valid, stale version, changed resources/count/endpoints, extra service, empty; some with deadlines), " +
			"completion ok/error of the parked deployment fetch, EventDeploymentUpdated (new version), EventLeaseClosed, EventDeploymentClosed, clock jumps (watchdog, deadlines); then a fair drain."
		d.Real = append(d.Real, "provider/manifest service, manager, watchdog", "validation.ValidateManifest / ValidateManifestWithDeployment", "sdl.ManifestVersion", "cluster.SimpleHostnames")
		d.Stub = []string{"chain client: Query.Deployment parked (answer = chain model at completion time), ActiveLeasesForProvider/Group direct, broadcasts parked"}
		if property == "C20" {
			d.RequiredProbes = []string{"probe:submit-accepted", "probe:submit-rejected", "probe:announcements", "probe:submit-while-fetch-in-flight", "probe:submit-while-another-outstanding",
				"probe:submit-without-lease", "probe:lease-won-while-submit-outstanding", "probe:lease-removed-while-submit-outstanding", "probe:version-update-while-fetch-in-flight", "fault:fail-Query.Deployment"}
		} else {
			d.RequiredProbes = []string{"probe:submit-accepted", "probe:submit-rejected", "probe:manifest-splits-a-record", "probe:manifest-reordered", "probe:hash-checks", "probe:version-update-while-fetch-in-flight"}
			d.Assumptions = append(d.Assumptions, "input-dominated property: the structural mutator samples manifests; the simulated part is the timing of version updates, fetches and lease events around the validation")
		}
	case "C15":
		d.Rule = "Layer 1: sequential histories of 10-49 operations (publish unique event, subscribe, clone, read one / verify nothing to read, close subscriber, close bus) on the real pubsub bus, " +
			"each operation run on its own goroutine and required to return by the next quiescent point, compared operation by operation with a per-subscriber queue model."
		d.Stub = []string{"none (publishers and readers are harness tasks)"}
		d.RequiredProbes = []string{"probe:clone-with-undelivered-events", "probe:clone-after-partial-read", "probe:read-on-empty", "probe:read-while-other-subscriber-stalled",
			"probe:close-with-undelivered-events", "probe:close-subscriber-with-clones", "probe:bus-closed"}
	}
	return d
}
