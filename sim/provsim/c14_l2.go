package provsim

import (
	"context"
	"fmt"
	"math/rand"
	"time"

	sdk "github.com/cosmos/cosmos-sdk/types"
	"github.com/tendermint/tendermint/libs/log"

	"github.com/ovrclk/akash/provider/cluster"
	ctypes "github.com/ovrclk/akash/provider/cluster/types"
	"github.com/ovrclk/akash/provider/event"
	"github.com/ovrclk/akash/provider/session"
	"github.com/ovrclk/akash/pubsub"
	dtypes "github.com/ovrclk/akash/x/deployment/types"
	mquery "github.com/ovrclk/akash/x/market/query"
	mtypes "github.com/ovrclk/akash/x/market/types"
	ptypes "github.com/ovrclk/akash/x/provider/types"

	"verifsim/core"
	"verifsim/simrt"
)

// ------------------------------------------------------------------ C14, Layer 2: the same cluster service,
// but every goroutine of service / manager / hostname service / inventory / monitor / bus is resumed
// one scheduling point at a time, so a lease-closed signal can land while the manager is still
// waiting for its hostname reservation, or between two of its states.

func runC14L2(r *core.Run) (*core.Violation, func() *core.Violation) {
	x := &c14{r: r, s: NewSched(r)}
	rand.Seed(1)
	x.faults = r.Weighted([]int{4, 3, 2}, "knob.faults")
	nLeases := 1 + r.Choose(2, "knob.leases")
	maxSteps := 60 + r.Choose(400, "knob.l2steps")
	tail := 20 + r.Choose(80, "knob.l2tail")
	injections := 2 + r.Choose(6, "knob.injections")
	swap := []bool{r.Bool(40, "knob.swap-hosts0"), r.Bool(40, "knob.swap-hosts1")}
	blocked := []bool{r.Bool(12, "knob.blocked-host0"), r.Bool(12, "knob.blocked-host1")}
	prov := testAddr(1)
	tenant := testAddr(3)
	x.prov = ptypes.Provider{Owner: prov.String(), HostURI: "https://p.example.com"}
	x.s.Respond = func(c *Call) (interface{}, error) {
		switch c.Method {
		case "Cluster.Inventory":
			return []ctypes.Node{bigNode()}, nil
		case "Cluster.LeaseStatus":
			lid := c.Args.(mtypes.LeaseID)
			st := &ctypes.LeaseStatus{Services: map[string]*ctypes.ServiceStatus{}}
			for _, l := range x.leases {
				if l.id.Equals(lid) {
					for i, res := range l.group.GroupSpec.Resources {
						st.Services[fmt.Sprintf("svc%d", i)] = &ctypes.ServiceStatus{Name: fmt.Sprintf("svc%d", i), Available: int32(res.Count), Total: int32(res.Count)}
					}
				}
			}
			return st, nil
		}
		return nil, nil
	}
	simrt.Enable(r)
	released := false
	release := func() {
		if !released {
			released = true
			simrt.ReleaseAll()
		}
	}
	slow := r.Bool(50, "knob.slow-cluster")
	loop := &l2Loop{r: r, s: x.s, faults: x.faults, weight: func(c *Call) int {
		if slow && (c.Method == "Cluster.Deploy" || c.Method == "Cluster.TeardownLease") {
			return 1 // slow cluster: operations stay in flight for many scheduling decisions
		}
		return 6
	}, failable: func(c *Call) bool { return c.Method == "Cluster.Deploy" || c.Method == "Cluster.TeardownLease" }}
	ctx, cancel := context.WithCancel(context.Background())
	x.cancel = cancel
	defer func() {
		release()
		if x.svc != nil {
			go x.svc.Close()
			for i := 0; i < 200; i++ {
				x.s.Settle()
				if isDone(x.svc.Done()) {
					break
				}
				for _, c := range x.s.Pending() {
					x.s.Complete(c, nil)
				}
				time.Sleep(time.Second)
			}
		}
		x.cancel()
		if x.bus != nil {
			x.bus.Close()
		}
		x.s.Settle()
	}()
	// start-up histories: the provider (re)starts over workloads of active leases that already run; the
	// cluster's and the node's answers take time, and meanwhile a lease may close or a tenant may update
	cc := &cluClient{s: x.s, inc: 1}
	cq := &cluQuery{}
	startupMode := r.Bool(25, "knob.startup-with-workloads")
	for i := 0; i < nLeases; i++ {
		oid := mtypes.OrderID{Owner: tenant.String(), DSeq: uint64([]int{1, 12}[i]), GSeq: 1, OSeq: 1}
		gs := simpleGroupSpec("web", 10, 1)
		l := &mLease{id: mtypes.MakeLeaseID(mtypes.MakeBidID(oid, prov)), group: dtypes.Group{GroupID: oid.GroupID(), State: dtypes.GroupOpen, GroupSpec: gs}}
		l.key = mquery.LeasePath(l.id)
		l.hosts = []string{fmt.Sprintf("app%d.example.com", i)}
		l.swapHosts = swap[i]
		l.blockedSecond = blocked[i]
		x.leases = append(x.leases, l)
		if startupMode && !l.blockedSecond && r.Bool(70, "startup.existing") {
			l.existing, l.lastSent, l.managed = true, 1, true
			_, g := x.manifestFor(l, 1)
			cc.existing = append(cc.existing, runningDeployment{lid: l.id, group: *g})
			cq.s = x.s
			cq.active = append(cq.active, mtypes.QueryLeaseResponse{Lease: mtypes.Lease{LeaseID: l.id, State: mtypes.LeaseActive}})
		}
	}
	// setup runs as a simulated task under a fair schedule
	setupDone := false
	simrt.Go("setup", func() {
		x.bus = pubsub.NewBus()
		cl := &cluChainClient{q: cq, tx: &cluTx{s: x.s, inc: 1}}
		sess := session.New(log.NewNopLogger(), cl, &x.prov)
		cfg := cluster.NewDefaultConfig()
		cfg.InventoryExternalPortQuantity = 100
		cfg.BlockedHostnames = []string{blockedHost}
		var err error
		x.svc, err = cluster.NewService(ctx, sess, x.bus, cc, cfg)
		if err != nil {
			panic(err)
		}
		for _, l := range x.leases {
			l.reserved = true
			if l.existing {
				continue // the inventory accounts for a workload found at start-up by itself
			}
			if _, err := x.svc.Reserve(l.id.OrderID(), l.group.GroupSpec); err != nil {
				panic(fmt.Sprintf("harness: initial reservation failed: %v", err))
			}
		}
		setupDone = true
	})
	if cc.existing != nil {
		r.Count("probe:l2-startup-with-workloads")
		r.Logf("start-up: %d workloads already running", len(cc.existing))
		for i := 0; i < 600 && !setupDone; i++ {
			loop.drainNoComplete(200)
			var waiting *Call
			for _, c := range x.s.Pending() {
				if c.Method == "Cluster.Deployments" || c.Method == "Query.ActiveLeases" {
					waiting = c
				}
			}
			if waiting == nil {
				break
			}
			x.s.Tick()
			for _, l := range x.leases {
				l := l
				if !l.existing || l.closedAt != 0 {
					continue
				}
				var ev interface{}
				switch r.Weighted([]int{6, 2, 1}, "startup.meanwhile") {
				case 1:
					ev = mtypes.NewEventLeaseClosed(l.id, sdk.NewInt64Coin("uakt", 10))
					l.closedAt, l.closedWith = x.s.Step, true
					r.Count("probe:l2-close-during-startup")
					r.Logf("step %d: EventLeaseClosed %s (provider waits for %s)", x.s.Step, l.key, waiting.Method)
				case 2:
					l.lastSent++
					m, _ := x.manifestFor(l, l.lastSent)
					ev = event.ManifestReceived{LeaseID: l.id, Manifest: m, Group: &l.group, Deployment: &dtypes.QueryDeploymentResponse{}}
					r.Count("probe:l2-update-during-startup")
					r.Logf("step %d: ManifestReceived %s v%d (provider waits for %s)", x.s.Step, l.key, l.lastSent, waiting.Method)
				}
				if ev != nil {
					r.Ops++
					r.Mutating++
					simrt.Go("inject-startup", func() {
						if err := x.bus.Publish(ev); err != nil {
							panic(err)
						}
					})
					// the event is on the bus (and in every subscription that exists) before the answer arrives
					loop.drainNoComplete(200)
				}
			}
			x.s.Complete(waiting, nil)
			r.Logf("step %d: %s -> ok", x.s.Step, waiting.Key)
		}
	}
	loop.drain(600, func() bool { return setupDone })
	if !setupDone {
		panic("harness: C14 L2 setup did not complete under a fair schedule")
	}
	r.Logf("L2 knobs: leases=%d steps=%d faults=%d injections=%d", nLeases, maxSteps, x.faults, injections)
	inflightInject := 0
	inject := func(name string, ev interface{}, after func()) {
		inflightInject++
		simrt.Go(name, func() {
			if err := x.bus.Publish(ev); err != nil {
				panic(err)
			}
			after()
			inflightInject--
		})
	}
	loop.extra = func() []l2Stim {
		var st []l2Stim
		if injections > 0 && inflightInject == 0 {
			for _, l := range x.leases {
				l := l
				if l.closedAt != 0 {
					continue
				}
				st = append(st, l2Stim{"manifest", 3, func() {
					injections--
					l.lastSent++
					if l.blockedSecond {
						l.deployFail = true
						r.Count("probe:l2-hostname-reservation-refused")
					}
					v := l.lastSent
					m, _ := x.manifestFor(l, v)
					if in := x.inflight(l); in != "" {
						r.Count("probe:l2-update-during-" + in)
					}
					r.Ops++
					r.Mutating++
					r.Logf("step %d: inject ManifestReceived %s v%d", x.s.Step, l.key, v)
					inject("inject-manifest", event.ManifestReceived{LeaseID: l.id, Manifest: m, Group: &l.group, Deployment: &dtypes.QueryDeploymentResponse{}}, func() {})
				}})
				if l.lastSent > 0 {
					st = append(st, l2Stim{"close", 2, func() {
						injections--
						deployed := len(x.s.CallsWhere(func(c *Call) bool { return c.Key == "Cluster.Deploy "+l.key })) > 0
						if !deployed {
							r.Count("probe:l2-close-before-first-deploy-started")
						}
						if in := x.inflight(l); in != "" {
							r.Count("probe:l2-close-during-" + in)
						}
						l.closedAt = x.s.Step
						l.closedWith = true
						r.Ops++
						r.Mutating++
						r.Logf("step %d: inject EventLeaseClosed %s", x.s.Step, l.key)
						inject("inject-close", mtypes.NewEventLeaseClosed(l.id, sdk.NewInt64Coin("uakt", 10)), func() {})
					}})
				}
			}
		}
		st = append(st, l2Stim{"clock", 1, func() {
			d := []time.Duration{time.Second, 6 * time.Second, 20 * time.Second}[r.Choose(3, "clock.d")]
			time.Sleep(d)
			r.SimTime += int64(d / time.Millisecond)
			r.Logf("step %d: clock +%v", x.s.Step, d)
		}})
		return st
	}
	loop.onStep = func() *core.Violation {
		for _, c := range x.s.CallsWhere(func(c *Call) bool { return c.Method == "Cluster.Deploy" && !c.OK && c.End != 0 }) {
			for _, l := range x.leases {
				if c.Key == "Cluster.Deploy "+l.key {
					l.deployFail = true
				}
			}
		}
		return x.checkSafetyL2()
	}
	// exploration ends when the step budget is used up, or some steps after the last injection
	quietSince := -1
	if v := loop.run(maxSteps, func() bool {
		if injections == 0 && inflightInject == 0 {
			if quietSince < 0 {
				quietSince = loop.steps
			}
			return loop.steps-quietSince > tail
		}
		return false
	}); v != nil {
		return v, nil
	}
	// fair drain, no more faults, until the obligations are met or the budget is gone
	var why string
	for round := 0; round < 60; round++ {
		loop.drain(40, func() bool { return false })
		x.s.Settle()
		if v := loop.onStep(); v != nil {
			return v, nil
		}
		var v *core.Violation
		why, v = x.obligationsL2(false)
		if v != nil {
			return v, nil
		}
		if why == "" && inflightInject == 0 {
			busy := false
			for _, c := range x.s.Pending() {
				if c.Method == "Cluster.Deploy" || c.Method == "Cluster.TeardownLease" {
					busy = true
				}
			}
			if !busy {
				break
			}
		}
		time.Sleep(3 * time.Second)
	}
	if _, v := x.obligationsL2(true); v != nil {
		return v, nil
	}
	if why != "" {
		return r.Flag("C14/l2-no-progress-after-faults-stopped", "after a fair drain with no further faults: %s", why), nil
	}
	// released: once a closed lease is torn down and its manager gone, the inventory reservation is
	// returned and another deployment can claim its hostnames (asked through the real services, whose
	// goroutines stay under the scheduler)
	type relRes struct {
		herr map[*mLease]error
		st   *ctypes.Status
		err  error
		done bool
	}
	rel := &relRes{herr: map[*mLease]error{}}
	// first let everything that is still moving come to rest (a manager's exit is reported to the
	// service through a channel: it must have been consumed before the status is asked for)
	// (a teardown that failed is retried after a real delay: let time pass until nothing wakes up any more)
	quiet := func() bool { return len(simrt.Runnable()) == 0 && len(x.s.Pending()) == 0 }
	for round, calm := 0, 0; round < 120 && calm < 4; round++ {
		loop.drain(400, quiet)
		time.Sleep(4 * time.Second)
		x.s.Settle()
		if quiet() {
			calm++
		} else {
			calm = 0
		}
	}
	simrt.Go("release-check", func() {
		other := dtypes.DeploymentID{Owner: testAddr(9).String(), DSeq: 999}
		for _, l := range x.leases {
			if l.closedAt != 0 && len(l.hosts) > 0 {
				rel.herr[l] = <-x.svc.HostnameService().CanReserveHostnames(l.everHosts(), other)
			}
		}
		rel.st, rel.err = x.svc.Status(context.Background())
		rel.done = true
	})
	loop.drain(600, func() bool { return rel.done })
	if !rel.done {
		return r.Flag("C14/l2-no-progress-after-faults-stopped", "the hostname service or the cluster service did not answer a status request under a fair schedule"), nil
	}
	if rel.err != nil {
		panic(rel.err)
	}
	want := 0
	for _, l := range x.leases {
		if l.closedAt == 0 && !l.deployFail {
			want++
		}
	}
	if have := len(rel.st.Inventory.Active) + len(rel.st.Inventory.Pending); have != want {
		return r.Flag("C14/reservation-not-released", "after a fair drain %d reservations are outstanding, %d leases are still alive (L2)", have, want), nil
	}
	for _, l := range x.leases {
		if l.closedAt != 0 && len(l.hosts) > 0 {
			r.Count("probe:l2-hostnames-release-checked")
			if rel.herr[l] != nil {
				return r.Flag("C14/hostnames-not-released", "lease %s is closed and torn down but its hostnames %v cannot be reserved by another deployment: %v (L2)", l.key, l.everHosts(), rel.herr[l]), nil
			}
		}
	}
	r.SimTime += int64(loop.steps)
	r.Count("probe:l2-runs-completed")
	for _, l := range x.leases {
		r.Abstract(fmt.Sprintf("%s sent=%d closed=%v fail=%v ops=%d", l.key[len(l.key)-8:], l.lastSent, l.closedAt != 0, l.deployFail, len(x.opsOf(l))))
		if l.closedAt != 0 {
			r.Count("probe:l2-teardown-obligation-met")
		}
	}
	return nil, nil
}

// checkSafetyL2: no two cluster operations of a lease overlap; no deploy starts once a teardown started.
func (x *c14) checkSafetyL2() *core.Violation {
	r := x.r
	for _, l := range x.leases {
		ops := x.opsOf(l)
		firstTeardown := -1
		for i, c := range ops {
			if c.Method == "Cluster.TeardownLease" && firstTeardown < 0 {
				firstTeardown = i
			}
			if c.Method == "Cluster.Deploy" && firstTeardown >= 0 {
				return r.Flag("C14/deploy-after-teardown-requested", "lease %s: %s was started after teardown had begun (%s)", l.key, c, ops[firstTeardown])
			}
			for j := i + 1; j < len(ops); j++ {
				a, b := c, ops[j]
				if a.End == 0 || b.Start < a.End {
					return r.Flag("C14/concurrent-cluster-operations", "lease %s: %s was started while %s was still running", l.key, b, a)
				}
			}
		}
	}
	return nil
}

// obligationsL2: closed lease => teardown after the last deploy; otherwise the last deploy carries the
// latest manifest.  The lease-closed signal is certainly known to the manager once everything has
// been scheduled fairly; a deploy that failed ends the manager (exempt by the statement).
func (x *c14) obligationsL2(final bool) (string, *core.Violation) {
	for _, l := range x.leases {
		if l.closedAt != 0 && l.deployFail {
			// deploy failed before or after the close: the manager may have ended without teardown (exempt)
			continue
		}
	}
	saved := map[*mLease]bool{}
	for _, l := range x.leases {
		saved[l] = l.closedWith
		if l.deployFail {
			l.closedWith = false
		}
	}
	why, v := x.obligations(final)
	for _, l := range x.leases {
		l.closedWith = saved[l]
	}
	return why, v
}
