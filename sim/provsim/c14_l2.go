package provsim

import "verifsim/core"

func runC14L2(r *core.Run) (*core.Violation, func() *core.Violation) { return runC14(r), nil }
