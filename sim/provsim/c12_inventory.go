package provsim

import (
	"context"
	"fmt"
	"math/rand"
	"time"

	"github.com/tendermint/tendermint/libs/log"

	"github.com/ovrclk/akash/manifest"
	"github.com/ovrclk/akash/provider/cluster"
	ctypes "github.com/ovrclk/akash/provider/cluster/types"
	"github.com/ovrclk/akash/provider/event"
	"github.com/ovrclk/akash/provider/session"
	"github.com/ovrclk/akash/pubsub"
	atypes "github.com/ovrclk/akash/types"
	"github.com/ovrclk/akash/types/unit"
	dtypes "github.com/ovrclk/akash/x/deployment/types"
	mquery "github.com/ovrclk/akash/x/market/query"
	mtypes "github.com/ovrclk/akash/x/market/types"
	ptypes "github.com/ovrclk/akash/x/provider/types"

	"verifsim/core"
)

// ------------------------------------------------------------------ C12: inventory

type vec struct{ cpu, mem, sto uint64 }

type mRes struct {
	id        int
	order     mtypes.OrderID
	group     dtypes.GroupSpec
	allocated bool
	first     []string // amounts (cpu, memory, storage) reported the first time this reservation appeared in a status
}

type resCall struct {
	id    int
	order mtypes.OrderID
	group dtypes.GroupSpec
	done  chan struct{}
	res   ctypes.Reservation
	err   error
	seen  bool
}

type c12 struct {
	r             *core.Run
	s             *Sched
	bus           pubsub.Bus
	svc           cluster.Service
	cancel        context.CancelFunc
	cfg           cluster.Config
	nodes         []vec // last inventory the service received (available capacity per node)
	haveInv       bool
	out           []*mRes // outstanding reservations in grant order
	calls         []*resCall
	nextID        int
	nextDSeq      uint64
	faults        int
	tenant        string
	pendingStatus bool
}

func commitFloor(v uint64, level float64) uint64 {
	if level <= 1.0 {
		return v
	}
	x := uint64(float64(v) / level) // floor: the weakest reading of "scaled by the commit level"
	if x < 1 {
		x = 1
	}
	return x
}

// packable: exact search for a placement of all replica units on the nodes (multi-dimensional bin
// packing by backtracking over item types); ok=false,exhausted=true when the search budget ran out.
func packable(nodes []vec, items []vec, counts []int) (ok bool, exhausted bool) {
	budget := 400000
	free := append([]vec{}, nodes...)
	var rec func(t int) bool
	var place func(t, remaining, from int) bool
	rec = func(t int) bool {
		if t == len(items) {
			return true
		}
		return place(t, counts[t], 0)
	}
	place = func(t, remaining, from int) bool {
		if remaining == 0 {
			return rec(t + 1)
		}
		budget--
		if budget < 0 {
			return false
		}
		it := items[t]
		for b := from; b < len(free); b++ {
			if free[b].cpu >= it.cpu && free[b].mem >= it.mem && free[b].sto >= it.sto {
				free[b].cpu -= it.cpu
				free[b].mem -= it.mem
				free[b].sto -= it.sto
				if place(t, remaining-1, b) {
					return true
				}
				free[b].cpu += it.cpu
				free[b].mem += it.mem
				free[b].sto += it.sto
			}
		}
		return false
	}
	res := rec(0)
	return res, budget < 0
}

func (x *c12) itemsOf(gs dtypes.GroupSpec) ([]vec, []int, int) {
	var items []vec
	var counts []int
	ports := 0
	for _, rec := range gs.Resources {
		items = append(items, vec{
			cpu: commitFloor(rec.Resources.CPU.Units.Value(), x.cfg.CPUCommitLevel),
			mem: commitFloor(rec.Resources.Memory.Quantity.Value(), x.cfg.MemoryCommitLevel),
			sto: commitFloor(rec.Resources.Storage.Quantity.Value(), x.cfg.StorageCommitLevel),
		})
		counts = append(counts, int(rec.Count))
		for _, ep := range rec.Resources.Endpoints {
			if ep.Kind == atypes.Endpoint_RANDOM_PORT {
				ports++
			}
		}
	}
	return items, counts, ports
}

func runC12(r *core.Run) *core.Violation {
	x := &c12{r: r, s: NewSched(r), tenant: testAddr(3).String()}
	rand.Seed(1)
	levels := []float64{0, 1, 1.5, 2, 10}
	x.cfg = cluster.NewDefaultConfig()
	x.cfg.CPUCommitLevel = levels[r.Choose(len(levels), "knob.cpu-commit")]
	x.cfg.MemoryCommitLevel = levels[r.Choose(len(levels), "knob.mem-commit")]
	x.cfg.StorageCommitLevel = levels[r.Choose(len(levels), "knob.sto-commit")]
	x.cfg.InventoryExternalPortQuantity = uint([]int{0, 1, 2, 5}[r.Choose(4, "knob.ports")])
	x.faults = r.Weighted([]int{3, 3, 2}, "knob.faults")
	steps := 12 + r.Choose(35, "knob.steps")
	x.s.Respond = func(c *Call) (interface{}, error) {
		if c.Method == "Cluster.Inventory" {
			x.nodes = x.drawNodes()
			x.haveInv = true
			var out []ctypes.Node
			for i, n := range x.nodes {
				ru := atypes.ResourceUnits{
					CPU:     &atypes.CPU{Units: atypes.NewResourceValue(n.cpu)},
					Memory:  &atypes.Memory{Quantity: atypes.NewResourceValue(n.mem)},
					Storage: &atypes.Storage{Quantity: atypes.NewResourceValue(n.sto)},
				}
				out = append(out, cluster.NewNode(fmt.Sprintf("node-%d", i), ru, ru))
			}
			r.Logf("  inventory: %v", x.nodes)
			return out, nil
		}
		return nil, nil
	}
	x.bus = pubsub.NewBus()
	prov := ptypes.Provider{Owner: testAddr(1).String()}
	cl := &cluChainClient{q: &cluQuery{}, tx: &cluTx{s: x.s, inc: 1}}
	sess := session.New(log.NewNopLogger(), cl, &prov)
	ctx, cancel := context.WithCancel(context.Background())
	x.cancel = cancel
	var err error
	x.svc, err = cluster.NewService(ctx, sess, x.bus, &cluClient{s: x.s, inc: 1}, x.cfg)
	if err != nil {
		panic(err)
	}
	defer func() {
		go x.svc.Close()
		for i := 0; i < 100; i++ {
			x.s.Settle()
			if isDone(x.svc.Done()) {
				break
			}
			for _, c := range x.s.Pending() {
				x.s.Complete(c, nil)
			}
			time.Sleep(time.Second)
		}
		x.cancel()
		x.bus.Close()
		x.s.Settle()
	}()
	r.Logf("knobs: commit cpu=%v mem=%v sto=%v ports=%d faults=%d steps=%d", x.cfg.CPUCommitLevel, x.cfg.MemoryCommitLevel, x.cfg.StorageCommitLevel, x.cfg.InventoryExternalPortQuantity, x.faults, steps)
	for i := 0; i < steps; i++ {
		r.Mark()
		if r.Switch("skip.step") {
			continue
		}
		x.s.Settle()
		x.s.Tick()
		x.step()
		x.s.Settle()
		if v := x.collect(); v != nil {
			return v
		}
	}
	// final: two status calls in a row must agree, entry by entry
	if v := x.status(); v != nil {
		return v
	}
	return x.status()
}

func (x *c12) drawNodes() []vec {
	r := x.r
	n := 1 + r.Choose(4, "inv.nodes")
	if r.Bool(12, "inv.no-nodes") {
		// the cluster reports that no node is available (all drained or gone): a valid answer
		r.Count("probe:inventory-reports-no-nodes")
		return nil
	}
	cpus := []uint64{100, 500, 1000, 4000}
	mems := []uint64{64 * unit.Mi, unit.Gi, 8 * unit.Gi}
	stos := []uint64{unit.Gi, 100 * unit.Gi}
	var out []vec
	for i := 0; i < n; i++ {
		out = append(out, vec{cpus[r.Choose(len(cpus), "inv.cpu")], mems[r.Choose(len(mems), "inv.mem")], stos[r.Choose(len(stos), "inv.sto")]})
	}
	return out
}

func (x *c12) drawGroup() dtypes.GroupSpec {
	r := x.r
	gs := dtypes.GroupSpec{Name: "web"}
	n := 1 + r.Choose(3, "res.units")
	cpus := []uint64{100, 250, 1000}
	mems := []uint64{16 * unit.Mi, 512 * unit.Mi, 2 * unit.Gi}
	stos := []uint64{64 * unit.Mi, unit.Gi}
	for i := 0; i < n; i++ {
		ru := atypes.ResourceUnits{
			CPU:     &atypes.CPU{Units: atypes.NewResourceValue(cpus[r.Choose(len(cpus), "res.cpu")])},
			Memory:  &atypes.Memory{Quantity: atypes.NewResourceValue(mems[r.Choose(len(mems), "res.mem")])},
			Storage: &atypes.Storage{Quantity: atypes.NewResourceValue(stos[r.Choose(len(stos), "res.sto")])},
		}
		for e := r.Choose(3, "res.endpoints"); e > 0; e-- {
			k := atypes.Endpoint_RANDOM_PORT
			if r.Bool(40, "res.ep.http") {
				k = atypes.Endpoint_SHARED_HTTP
			}
			ru.Endpoints = append(ru.Endpoints, atypes.Endpoint{Kind: k})
		}
		gs.Resources = append(gs.Resources, dtypes.Resource{Resources: ru, Count: uint32(1 + r.Choose(3, "res.count"))})
	}
	return gs
}

func (x *c12) step() {
	r := x.r
	type stim struct {
		w int
		f func()
	}
	var st []stim
	for _, c := range x.s.Pending() {
		c := c
		st = append(st, stim{8, func() {
			x.s.Complete(c, nil)
			r.Ops++
			r.Logf("step %d: %s (call #%d issued at step %d) -> ok", x.s.Step, c.Key, c.ID, c.Start)
			r.Abstract("ok|" + c.Method)
		}})
		if x.faults > 0 && c.Method == "Cluster.Inventory" {
			st = append(st, stim{3, func() {
				x.faults--
				x.s.Complete(c, ErrInjected)
				r.Count("fault:inventory-error")
				r.Logf("step %d: %s -> FAULT error", x.s.Step, c.Key)
				r.Abstract("fail|inventory")
			}})
		}
	}
	waiting := 0
	for _, c := range x.calls {
		if !c.seen {
			waiting++
		}
	}
	if len(x.out)+waiting < 5 {
		st = append(st, stim{10, func() {
			x.nextID++
			x.nextDSeq++
			oid := mtypes.OrderID{Owner: x.tenant, DSeq: x.nextDSeq, GSeq: 1, OSeq: 1}
			if len(x.out) > 0 && r.Bool(8, "reserve.same-order") {
				oid = x.out[r.Choose(len(x.out), "reserve.dup")].order
				r.Count("probe:second-reservation-same-order")
			}
			c := &resCall{id: x.nextID, order: oid, group: x.drawGroup(), done: make(chan struct{})}
			x.calls = append(x.calls, c)
			inflight := false
			for _, p := range x.s.Pending() {
				if p.Method == "Cluster.Inventory" {
					inflight = true
				}
			}
			if inflight {
				r.Count("probe:reserve-while-inventory-in-flight")
			}
			go func() {
				c.res, c.err = x.svc.Reserve(c.order, c.group)
				close(c.done)
			}()
			r.Ops++
			r.Logf("step %d: Reserve #%d order %d: %s", x.s.Step, c.id, oid.DSeq, showGroup(c.group))
			r.Abstract("reserve")
		}})
	}
	if len(x.out) > 0 {
		st = append(st, stim{5, func() {
			m := x.out[r.Choose(len(x.out), "unreserve.which")]
			before := len(x.out)
			var err error
			if !returnsPromptly(func() { err = x.svc.Unreserve(m.order) }) {
				panic("harness: Unreserve blocked")
			}
			if err == nil {
				// exactly the first reservation of that order goes
				for i, o := range x.out {
					if o.order.Equals(m.order) {
						x.out = append(x.out[:i], x.out[i+1:]...)
						break
					}
				}
			}
			r.Ops++
			r.Mutating++
			r.Logf("step %d: Unreserve order %d -> %v (outstanding %d -> %d)", x.s.Step, m.order.DSeq, err, before, len(x.out))
			r.Abstract("unreserve")
		}})
		st = append(st, stim{4, func() {
			m := x.out[r.Choose(len(x.out), "deploy.which")]
			status := event.ClusterDeploymentDeployed
			if r.Bool(30, "deploy.pending") {
				status = event.ClusterDeploymentPending
			}
			g := manifest.Group{Name: m.group.Name}
			x.publishEv(event.ClusterDeployment{LeaseID: mtypes.MakeLeaseID(mtypes.MakeBidID(m.order, testAddr(1))), Group: &g, Status: status})
			// the first outstanding reservation of that order with that group name changes state
			for _, o := range x.out {
				if o.order.Equals(m.order) {
					o.allocated = status == event.ClusterDeploymentDeployed
					break
				}
			}
			r.Ops++
			r.Mutating++
			r.Count("probe:deployment-status-event")
			r.Logf("step %d: ClusterDeployment order %d %s", x.s.Step, m.order.DSeq, status)
			r.Abstract("clusterdeployment|" + string(status))
		}})
	}
	if len(x.out) > 0 {
		st = append(st, stim{2, func() {
			// a late status of ANOTHER lease of the same deployment group (the previous order sequence,
			// whose monitor still reports): it concerns none of the outstanding reservations
			m := x.out[r.Choose(len(x.out), "stale.which")]
			oid := m.order
			oid.OSeq += uint32(1 + r.Choose(2, "stale.oseq"))
			g := manifest.Group{Name: m.group.Name}
			x.publishEv(event.ClusterDeployment{LeaseID: mtypes.MakeLeaseID(mtypes.MakeBidID(oid, testAddr(1))), Group: &g, Status: event.ClusterDeploymentDeployed})
			r.Ops++
			r.Count("probe:status-event-of-another-order-sequence")
			r.Logf("step %d: ClusterDeployment (deployed) for order %d/%d/%d - not the order of any reservation", x.s.Step, oid.DSeq, oid.GSeq, oid.OSeq)
			r.Abstract("clusterdeployment|stale")
		}})
	}
	st = append(st, stim{6, func() {
		r.Ops++
		x.pendingStatus = true
		r.Logf("step %d: Status", x.s.Step)
		r.Abstract("status")
	}})
	st = append(st, stim{3, func() {
		d := []time.Duration{time.Second, 6 * time.Second, 30 * time.Second}[r.Choose(3, "clock.d")]
		time.Sleep(d)
		r.SimTime += int64(d / time.Millisecond)
		r.Logf("step %d: clock +%v", x.s.Step, d)
		r.Abstract("clock")
	}})
	ws := make([]int, len(st))
	for i := range st {
		ws[i] = st[i].w
	}
	st[r.Weighted(ws, "step")].f()
}

func showGroup(gs dtypes.GroupSpec) string {
	s := ""
	for _, rec := range gs.Resources {
		s += fmt.Sprintf("[%dx cpu=%d mem=%dMi sto=%dMi ep=%d] ", rec.Count, rec.Resources.CPU.Units.Value(), rec.Resources.Memory.Quantity.Value()/unit.Mi, rec.Resources.Storage.Quantity.Value()/unit.Mi, len(rec.Resources.Endpoints))
	}
	return s
}

func (x *c12) publishEv(ev interface{}) {
	if !returnsPromptly(func() {
		if err := x.bus.Publish(ev); err != nil {
			panic(err)
		}
	}) {
		panic("harness: bus publish blocked")
	}
}

// collect: reserve calls that returned since the last step are judged against the packing oracle.
func (x *c12) collect() *core.Violation {
	r := x.r
	for _, c := range x.calls {
		if c.seen || !isDone(c.done) {
			continue
		}
		c.seen = true
		if c.err != nil {
			r.Count("probe:reserve-refused")
			r.Logf("  Reserve #%d -> %v", c.id, c.err)
			continue
		}
		r.Count("probe:reserve-granted")
		r.Mutating++
		r.Logf("  Reserve #%d -> granted", c.id)
		if st, err := statusOf(x.svc); err == nil && r.Cfgs("debug", "") != "" {
			for _, a := range st.Inventory.Available {
				r.Logf("    service sees node available cpu=%s", a.CPU.Units.Val)
			}
		}
		if !x.haveInv {
			return r.Flag("C12/granted-without-inventory", "reservation #%d granted before any inventory was reported", c.id)
		}
		// all not-yet-deployed reservations plus the new one must fit the last reported capacity
		var items []vec
		var counts []int
		ports := 0
		for _, o := range x.out {
			if o.allocated {
				continue
			}
			it, ct, p := x.itemsOf(o.group)
			items, counts, ports = append(items, it...), append(counts, ct...), ports+p
		}
		it, ct, p := x.itemsOf(c.group)
		items, counts, ports = append(items, it...), append(counts, ct...), ports+p
		ok, exhausted := packable(x.nodes, items, counts)
		if exhausted {
			r.Count("packing-search-budget-exhausted")
		} else if !ok {
			return r.Flag("C12/granted-but-not-placeable", "reservation #%d (%s) granted, but it and the %d not-yet-deployed reservations cannot be placed on the last reported capacity %v even at commit levels cpu=%v mem=%v storage=%v",
				c.id, showGroup(c.group), len(items)-len(it), x.nodes, x.cfg.CPUCommitLevel, x.cfg.MemoryCommitLevel, x.cfg.StorageCommitLevel)
		} else if len(items) > len(it) {
			r.Count("probe:grant-with-other-pending-reservations")
		}
		usedByDeployed := 0
		for _, o := range x.out {
			if o.allocated {
				_, _, p := x.itemsOf(o.group)
				usedByDeployed += p
			}
		}
		if free := int(x.cfg.InventoryExternalPortQuantity) - usedByDeployed; ports > free && ports > 0 {
			return r.Flag("C12/granted-beyond-free-ports", "reservation #%d granted: pending reservations need %d external ports, %d are free", c.id, ports, free)
		}
		x.out = append(x.out, &mRes{id: c.id, order: c.order, group: c.group})
	}
	if x.pendingStatus {
		x.pendingStatus = false
		return x.status()
	}
	return nil
}

// status: one entry per outstanding reservation, the same amounts every time.
func (x *c12) status() *core.Violation {
	r := x.r
	st, err := statusOf(x.svc)
	if err != nil {
		panic(err)
	}
	r.Count("probe:status-calls")
	var wantPending, wantActive []*mRes
	for _, o := range x.out {
		if o.allocated {
			wantActive = append(wantActive, o)
		} else {
			wantPending = append(wantPending, o)
		}
	}
	if st.Inventory.Error != nil {
		return r.Flag("C12/status-error", "status reports error %v", st.Inventory.Error)
	}
	if len(st.Inventory.Pending) != len(wantPending) || len(st.Inventory.Active) != len(wantActive) {
		return r.Flag("C12/status-entries-ne-outstanding", "status lists %d pending / %d active reservations; granted and not released: %d not deployed / %d deployed",
			len(st.Inventory.Pending), len(st.Inventory.Active), len(wantPending), len(wantActive))
	}
	check := func(got []atypes.ResourceUnits, want []*mRes, what string) *core.Violation {
		for i, o := range want {
			g := got[i]
			now := []string{g.CPU.Units.Val.String(), g.Memory.Quantity.Val.String(), g.Storage.Quantity.Val.String()}
			if o.first == nil {
				o.first = now
				continue
			}
			if len(o.group.Resources) > 1 {
				r.Count("probe:repeated-status-of-multi-unit-reservation")
			}
			if o.first[0] != now[0] || o.first[1] != now[1] || o.first[2] != now[2] {
				return r.Flag("C12/status-amounts-changed", "%s reservation #%d (%s): first reported cpu/mem/storage=%v, now %v although it was neither released nor changed",
					what, o.id, showGroup(o.group), o.first, now)
			}
		}
		return nil
	}
	if v := check(st.Inventory.Pending, wantPending, "pending"); v != nil {
		return v
	}
	return check(st.Inventory.Active, wantActive, "active")
}

var _ = mquery.OrderPath
