package provsim

import (
	"bytes"
	"context"
	"crypto/sha256"
	"encoding/json"
	"errors"
	"fmt"
	"sort"
	"strings"
	"time"

	sdk "github.com/cosmos/cosmos-sdk/types"
	abci "github.com/tendermint/tendermint/abci/types"
	"github.com/tendermint/tendermint/libs/log"

	"github.com/ovrclk/akash/client"
	"github.com/ovrclk/akash/client/broadcaster"
	"github.com/ovrclk/akash/manifest"
	"github.com/ovrclk/akash/provider/cluster"
	"github.com/ovrclk/akash/provider/event"
	pmanifest "github.com/ovrclk/akash/provider/manifest"
	"github.com/ovrclk/akash/provider/session"
	"github.com/ovrclk/akash/pubsub"
	"github.com/ovrclk/akash/sdl"
	atypes "github.com/ovrclk/akash/types"
	"github.com/ovrclk/akash/types/unit"
	"github.com/ovrclk/akash/validation"
	dtypes "github.com/ovrclk/akash/x/deployment/types"
	mtypes "github.com/ovrclk/akash/x/market/types"
	ptypes "github.com/ovrclk/akash/x/provider/types"

	"verifsim/core"
	"verifsim/evparse"
	"verifsim/simrt"
)

// ------------------------------------------------------------------ stubs

type mfQuery struct {
	client.QueryClient
	x *c20
}

func (q *mfQuery) Deployment(ctx context.Context, in *dtypes.QueryDeploymentRequest, _ ...grpcCallOption) (*dtypes.QueryDeploymentResponse, error) {
	v, err := q.x.s.Do(ctx, 1, "Query.Deployment", fmt.Sprintf("Query.Deployment %d", in.ID.DSeq), in)
	if err != nil {
		return nil, err
	}
	return v.(*dtypes.QueryDeploymentResponse), nil
}

func (q *mfQuery) ActiveLeasesForProvider(id sdk.AccAddress) ([]mtypes.QueryLeaseResponse, error) {
	var out []mtypes.QueryLeaseResponse
	for _, l := range q.x.preexisting {
		out = append(out, mtypes.QueryLeaseResponse{Lease: mtypes.Lease{LeaseID: l, State: mtypes.LeaseActive, Price: sdk.NewInt64Coin("uakt", 1)}})
	}
	return out, nil
}

func (q *mfQuery) Group(ctx context.Context, in *dtypes.QueryGroupRequest, _ ...grpcCallOption) (*dtypes.QueryGroupResponse, error) {
	for _, g := range q.x.groups {
		if g.GroupID.Equals(in.ID) {
			return &dtypes.QueryGroupResponse{Group: g}, nil
		}
	}
	return nil, errors.New("group not found")
}

type mfTx struct{ x *c20 }

func (t *mfTx) Broadcast(ctx context.Context, msgs ...sdk.Msg) error {
	_, err := t.x.s.Do(ctx, 1, "Tx.Broadcast", fmt.Sprintf("Tx.%T", msgs[0]), msgs[0])
	return err
}

type mfClient struct {
	q  *mfQuery
	tx *mfTx
}

func (c *mfClient) Query() client.QueryClient { return c.q }
func (c *mfClient) Tx() broadcaster.Client    { return c.tx }

// ------------------------------------------------------------------ model

type mfVersion struct {
	hash []byte
	from int // step from which it is the on-chain version
	m    manifest.Manifest
}

type mfSubmit struct {
	id        int
	m         manifest.Manifest
	hash      []byte
	kind      string // valid | stale-version | bad-resources | bad-count | bad-endpoints | extra-service | empty
	issuedAt  int
	knownFrom int // step from which on-chain versions count for this submission: its issue step, or (Layer 2) the last sync point before it - updates injected since may not have reached the provider yet
	returned  bool
	retAt     int
	err       error
	done      chan struct{}
	matches   bool // per-group resource multisets and endpoint counts equal the on-chain groups (harness-side)
	acceptSeq int
}

type c20 struct {
	r           *core.Run
	s           *Sched
	bus         pubsub.Bus
	sub         pubsub.Subscriber
	svc         pmanifest.Service
	cancel      context.CancelFunc
	prov        sdk.AccAddress
	did         dtypes.DeploymentID
	groups      []dtypes.Group
	versions    []mfVersion
	preexisting []mtypes.LeaseID
	leasesHeld  map[string]bool // lease path -> the provider was told it won and not that it closed
	l2          bool            // goroutine-level run: no responsiveness pings, submissions are simulated tasks
	busy        bool            // the service loop did not answer at the last quiescent point: no new stimulus is aimed at it
	heldLoose   map[string]bool // leases held as far as the service can know: as of the last time its loop had consumed all delivered events
	leasesWon   map[string]bool
	submits     []*mfSubmit
	announced   []announced
	tapped      []announced
	lastSync    int
	cleanup     bool // the run is over: no more draws (Layer 2 cleanup is free-running)
	fetchOK     bool
	closed      bool // deployment closed event delivered
	faults      int
	acceptCtr   int
	curManifest manifest.Manifest // manifest matching the current on-chain version
}

type announced struct {
	step  int
	lease string
	hash  []byte
	// verdicts taken at the moment of publication (Layer 2 taps the bus the service publishes on)
	tapped  bool
	held    bool
	fetched bool
	hasDep  bool
}

// tapBus lets the harness see an announcement at the instant the manager publishes it (a harness
// subscriber would see it only when the scheduler gets round to running the subscription's goroutine).
type tapBus struct {
	pubsub.Bus
	x *c20
}

func (t *tapBus) Publish(ev pubsub.Event) error {
	if mr, ok := ev.(event.ManifestReceived); ok {
		x := t.x

		lease := pathOf(mr.LeaseID)
		x.tapped = append(x.tapped, announced{step: x.s.Step, lease: lease, hash: canonicalHash(*mr.Manifest), tapped: true,
			held: x.leasesHeld[lease] || x.heldLoose[lease], fetched: x.fetchOK, hasDep: mr.Deployment != nil})
	}
	return t.Bus.Publish(ev)
}

func canonicalHash(m manifest.Manifest) []byte {
	b, err := json.Marshal(m)
	if err != nil {
		panic(err)
	}
	var v interface{}
	if err := json.Unmarshal(b, &v); err != nil {
		panic(err)
	}
	c, err := json.Marshal(v) // maps are written with sorted keys
	if err != nil {
		panic(err)
	}
	h := sha256.Sum256(c)
	return h[:]
}

func unitOf(cpu uint64, memMi uint64) atypes.ResourceUnits {
	return atypes.ResourceUnits{
		CPU:     &atypes.CPU{Units: atypes.NewResourceValue(cpu)},
		Memory:  &atypes.Memory{Quantity: atypes.NewResourceValue(memMi * unit.Mi)},
		Storage: &atypes.Storage{Quantity: atypes.NewResourceValue(64 * unit.Mi)},
	}
}

// buildManifest derives a manifest from the on-chain groups; variant decides how records are split
// into services and ordered.
func (x *c20) buildManifest(tag int) manifest.Manifest {
	r := x.r
	var m manifest.Manifest
	for gi, g := range x.groups {
		mg := manifest.Group{Name: g.GroupSpec.Name}
		n := 0
		first := true
		for _, rec := range g.GroupSpec.Resources {
			counts := []uint32{rec.Count}
			if rec.Count >= 2 && r.Bool(50, "mf.split") {
				a := uint32(1 + r.Choose(int(rec.Count-1), "mf.split.at"))
				counts = []uint32{a, rec.Count - a}
				r.Count("probe:manifest-splits-a-record")
			}
			for _, c := range counts {
				ru := rec.Resources
				ru.Endpoints = nil
				svc := manifest.Service{Name: fmt.Sprintf("g%ds%d", gi, n), Image: fmt.Sprintf("img:%d", tag), Resources: ru, Count: c}
				if first {
					// the endpoint kind follows the PUBLISHED port ("as" when given, else the container port)
					http := manifest.ServiceExpose{Port: 80, Proto: manifest.TCP, Global: true, Hosts: []string{fmt.Sprintf("h%d.example.com", gi)}}
					if r.Bool(30, "mf.http-as-80") {
						http.Port, http.ExternalPort = 8000, 80
					}
					svc.Expose = []manifest.ServiceExpose{http}
					for _, ep := range rec.Resources.Endpoints {
						if ep.Kind == atypes.Endpoint_RANDOM_PORT {
							other := manifest.ServiceExpose{Port: 8080, ExternalPort: 8080, Proto: manifest.TCP, Global: true}
							switch r.Choose(3, "mf.port-shape") {
							case 1:
								other.Port, other.ExternalPort = 80, 8080 // container port 80 published as 8080: not an HTTP ingress
								r.Count("probe:manifest-port-80-as-other")
							case 2:
								other.ExternalPort = 0
							}
							svc.Expose = append(svc.Expose, other)
						}
					}
					first = false
				}
				mg.Services = append(mg.Services, svc)
				n++
			}
		}
		if len(mg.Services) > 1 && r.Bool(40, "mf.reorder") {
			p := r.Permute(len(mg.Services), "mf.order")
			re := make([]manifest.Service, len(p))
			for i, j := range p {
				re[i] = mg.Services[j]
			}
			mg.Services = re
			r.Count("probe:manifest-reordered")
		}
		m = append(m, mg)
	}
	return m
}

// nextManifest: what the tenant updates the deployment to - a new manifest, or (roll-back) the one
// before the current one again, so that the same version hash is on chain for a second time.
func (x *c20) nextManifest() manifest.Manifest {
	if len(x.versions) >= 2 && x.r.Bool(30, "update.rollback") {
		x.r.Count("probe:update-rolls-back")
		return cloneManifest(x.versions[len(x.versions)-2].m)
	}
	nm := x.buildManifest(len(x.versions))
	if x.r.Bool(12, "update.inconsistent-version") {
		// nothing on chain ties the version to the groups: the tenant records the hash of a manifest that
		// disagrees with the on-chain groups (a replica count).  Its hash is the version; it must still be
		// refused by the resource comparison, for every group, leased to this provider yet or not.
		gi := x.r.Choose(len(nm), "update.inconsistent.group")
		moved := false
		if len(nm) >= 2 && x.r.Bool(50, "update.inconsistent.move-expose") {
			// a global expose moves to another group: per-kind totals of the deployment stay the same,
			// the endpoint counts of two groups do not
			for si := range nm[gi].Services {
				if ex := nm[gi].Services[si].Expose; len(ex) > 0 {
					other := &nm[(gi+1)%len(nm)].Services[0]
					other.Expose = append(other.Expose, ex[len(ex)-1])
					nm[gi].Services[si].Expose = ex[:len(ex)-1]
					moved = true
					break
				}
			}
		}
		if !moved {
			nm[gi].Services[0].Count += 2
		}
		x.r.Count("probe:version-of-a-mismatching-manifest")
	}
	return nm
}

// groupsMatch: harness-side statement of C10's resource clause (multisets of units x counts, endpoint counts).
func (x *c20) groupsMatch(m manifest.Manifest) bool {
	if len(m) != len(x.groups) {
		return false
	}
	byName := map[string]dtypes.Group{}
	for _, g := range x.groups {
		byName[g.GroupSpec.Name] = g
	}
	seen := map[string]bool{}
	for _, mg := range m {
		g, ok := byName[mg.Name]
		if !ok || seen[mg.Name] {
			return false
		}
		seen[mg.Name] = true
		want := map[string]uint64{}
		wantHTTP, wantOther := 0, 0
		for _, rec := range g.GroupSpec.Resources {
			k := fmt.Sprintf("%s/%s/%s", rec.Resources.CPU.Units.Val, rec.Resources.Memory.Quantity.Val, rec.Resources.Storage.Quantity.Val)
			want[k] += uint64(rec.Count)
			for _, ep := range rec.Resources.Endpoints {
				if ep.Kind == atypes.Endpoint_SHARED_HTTP {
					wantHTTP++
				} else {
					wantOther++
				}
			}
		}
		got := map[string]uint64{}
		gotHTTP, gotOther := 0, 0
		for _, s := range mg.Services {
			if s.Resources.CPU == nil || s.Resources.Memory == nil || s.Resources.Storage == nil {
				return false
			}
			k := fmt.Sprintf("%s/%s/%s", s.Resources.CPU.Units.Val, s.Resources.Memory.Quantity.Val, s.Resources.Storage.Quantity.Val)
			got[k] += uint64(s.Count)
			for _, e := range s.Expose {
				if !e.Global {
					continue
				}
				ext := e.ExternalPort
				if ext == 0 {
					ext = e.Port
				}
				if e.Proto == manifest.TCP && ext == 80 {
					gotHTTP++
				} else {
					gotOther++
				}
			}
		}
		if len(want) != len(got) || wantHTTP != gotHTTP || wantOther != gotOther {
			return false
		}
		for k, v := range want {
			if got[k] != v {
				return false
			}
		}
	}
	return true
}

func cloneManifest(m manifest.Manifest) manifest.Manifest {
	b, _ := json.Marshal(m)
	var out manifest.Manifest
	if err := json.Unmarshal(b, &out); err != nil {
		panic(err)
	}
	return out
}

func runC20(r *core.Run) *core.Violation {
	x := &c20{r: r, s: NewSched(r), leasesHeld: map[string]bool{}, leasesWon: map[string]bool{}, heldLoose: map[string]bool{}}
	x.prov = testAddr(1)
	tenant := testAddr(3)
	x.did = dtypes.DeploymentID{Owner: tenant.String(), DSeq: uint64([]int{1, 12, 256}[r.Choose(3, "knob.dseq")])}
	x.faults = r.Weighted([]int{3, 3, 2}, "knob.faults")
	steps := 10 + r.Choose(30, "knob.steps")
	if r.Bool(50, "knob.fetch-ignores-cancel") {
		// the chain query does not notice the cancellation of its context: it returns when answered
		x.s.NoCancel = map[string]bool{"Query.Deployment": true}
	}
	ng := 1 + r.Choose(2, "knob.groups")
	for gi := 0; gi < ng; gi++ {
		gs := dtypes.GroupSpec{Name: fmt.Sprintf("grp%d", gi)}
		nrec := 1 + r.Choose(2, "knob.records")
		for ri := 0; ri < nrec; ri++ {
			ru := unitOf(uint64(100*(ri+1)), 16)
			if ri == 0 {
				ru.Endpoints = []atypes.Endpoint{{Kind: atypes.Endpoint_SHARED_HTTP}}
				if r.Bool(30, "knob.randomport") {
					ru.Endpoints = append(ru.Endpoints, atypes.Endpoint{Kind: atypes.Endpoint_RANDOM_PORT})
				}
			}
			gs.Resources = append(gs.Resources, dtypes.Resource{Resources: ru, Count: uint32(1 + r.Choose(3, "knob.count")), Price: sdk.NewInt64Coin("uakt", 1)})
		}
		x.groups = append(x.groups, dtypes.Group{GroupID: dtypes.MakeGroupID(x.did, uint32(gi+1)), State: dtypes.GroupOpen, GroupSpec: gs})
	}
	x.curManifest = x.buildManifest(0)
	x.versions = []mfVersion{{hash: canonicalHash(x.curManifest), from: 0, m: x.curManifest}}
	if v := x.hashProperties(x.curManifest); v != nil {
		return v
	}
	if r.Bool(25, "knob.preexisting-lease") {
		x.preexisting = []mtypes.LeaseID{x.leaseID(0)}
		x.leasesHeld[x.leasePath(0)] = true
	}
	x.s.Respond = func(c *Call) (interface{}, error) {
		if c.Method == "Query.Deployment" {
			x.fetchOK = true
			cur := x.versions[len(x.versions)-1].hash
			// the node may have served the query any time between its issue and now: sometimes the
			// answer is the state as of the issue (an update that happened meanwhile is not in it)
			if !x.cleanup && r.Bool(40, "fetch.served-at-issue") { // no draws during the (in Layer 2 free-running) cleanup
				for i := len(x.versions) - 1; i >= 0; i-- {
					if x.versions[i].from <= c.Start {
						if i != len(x.versions)-1 {
							r.Count("probe:fetch-answer-older-than-latest-update")
						}
						cur = x.versions[i].hash
						break
					}
				}
			}
			st := dtypes.DeploymentActive
			return &dtypes.QueryDeploymentResponse{Deployment: dtypes.Deployment{DeploymentID: x.did, State: st, Version: append([]byte{}, cur...)}, Groups: x.groups}, nil
		}
		return nil, nil
	}
	x.bus = pubsub.NewBus()
	var err error
	x.sub, err = x.bus.Subscribe()
	if err != nil {
		panic(err)
	}
	prov := ptypes.Provider{Owner: x.prov.String()}
	sess := session.New(log.NewNopLogger(), &mfClient{q: &mfQuery{x: x}, tx: &mfTx{x: x}}, &prov)
	ctx, cancel := context.WithCancel(context.Background())
	x.cancel = cancel
	cfg := pmanifest.ServiceConfig{ManifestTimeout: []time.Duration{0, 2 * time.Minute}[r.Choose(2, "knob.watchdog")]}
	var hs cluster.HostnameServiceClient = &cluster.SimpleHostnames{Hostnames: map[string]dtypes.DeploymentID{}}
	if r.Bool(30, "knob.slow-hostnames") {
		// the hostname service is another actor of the provider and may take its time: the manager then
		// sits in the middle of a validation while the chain and the tenant go on
		hs = &slowHostnames{HostnameServiceClient: hs, x: x}
		r.Count("probe:slow-hostname-service")
	}
	x.svc, err = pmanifest.NewService(ctx, sess, x.bus, hs, cfg)
	if err != nil {
		panic(err)
	}
	defer func() {
		x.cleanup = true
		x.cancel()
		for i := 0; i < 100; i++ {
			x.s.Settle()
			if isDone(x.svc.Done()) {
				break
			}
			for _, c := range x.s.Pending() {
				x.s.Complete(c, nil)
			}
			time.Sleep(time.Second)
		}
		x.sub.Close()
		x.bus.Close()
		x.s.Settle()
	}()
	r.Logf("knobs: groups=%d steps=%d faults=%d watchdog=%v preexisting-lease=%v", ng, steps, x.faults, cfg.ManifestTimeout, len(x.preexisting) > 0)
	for i := 0; i < steps; i++ {
		r.Mark()
		if r.Switch("skip.step") {
			continue
		}
		x.s.Settle()
		x.s.Tick()
		x.step()
		if v := x.observe(); v != nil {
			return v
		}
	}
	return x.finish()
}

func (x *c20) leaseID(gi int) mtypes.LeaseID {
	g := x.groups[gi]
	return mtypes.MakeLeaseID(mtypes.MakeBidID(mtypes.MakeOrderID(g.GroupID, 1), x.prov))
}

func (x *c20) leasePath(gi int) string {
	l := x.leaseID(gi)
	return fmt.Sprintf("%d/%d/%d", l.DSeq, l.GSeq, l.OSeq)
}

func pathOf(l mtypes.LeaseID) string { return fmt.Sprintf("%d/%d/%d", l.DSeq, l.GSeq, l.OSeq) }

// viaChain takes a chain event the way it really reaches the provider: as the ABCI event the chain
// emitted, turned back into a typed event by the parsers the provider's feed uses (package evparse).  An
// event the parser refuses is dropped, exactly as the real pipeline drops it.  Provider-internal events
// (LeaseWon) are not chain events and pass unchanged.
func (x *c20) viaChain(ev interface{}) (interface{}, bool) {
	ce, ok := ev.(interface{ ToSDKEvent() sdk.Event })
	if !ok {
		return ev, true
	}
	typed, ok := evparse.Process(abci.Event(ce.ToSDKEvent()))
	if !ok {
		x.r.Count("probe:chain-event-dropped-by-parser")
		x.r.Logf("step %d: the provider's event parser dropped %T", x.s.Step, ev)
		return nil, false
	}
	x.r.Count("probe:chain-event-through-parser")
	return typed, true
}

func (x *c20) publish(ev interface{}) {
	var ok bool
	if ev, ok = x.viaChain(ev); !ok {
		return
	}
	if !returnsPromptly(func() {
		if err := x.bus.Publish(ev); err != nil {
			panic(err)
		}
	}) {
		panic("harness: bus publish blocked")
	}
}

// hashProperties: the version hash is independent of serialization order and changes with any field.
func (x *c20) hashProperties(m manifest.Manifest) *core.Violation {
	r := x.r
	h1, err := sdl.ManifestVersion(m)
	if err != nil {
		panic(err)
	}
	// re-serialise with reversed key order, decode, hash again
	b, _ := json.Marshal(m)
	var v interface{}
	json.Unmarshal(b, &v)
	rev := reverseKeysJSON(v)
	var m2 manifest.Manifest
	if err := json.Unmarshal(rev, &m2); err != nil {
		panic(err)
	}
	h2, _ := sdl.ManifestVersion(m2)
	if !bytes.Equal(h1, h2) {
		return x.flag("C10/hash-depends-on-serialization-order", "manifest hash differs after re-serialising the same manifest with another key order")
	}
	// single field change
	m3 := cloneManifest(m)
	gi := r.Choose(len(m3), "hash.mut.group")
	si := r.Choose(len(m3[gi].Services), "hash.mut.service")
	s := &m3[gi].Services[si]
	what := ""
	switch r.Choose(6, "hash.mut.field") {
	case 0:
		s.Image += "x"
		what = "image"
	case 1:
		s.Count++
		what = "count"
	case 2:
		s.Env = append(s.Env, "A=B")
		what = "env"
	case 3:
		s.Resources.CPU = &atypes.CPU{Units: atypes.NewResourceValue(s.Resources.CPU.Units.Value() + 1)}
		what = "cpu"
	case 4:
		s.Args = append(s.Args, "--flag")
		what = "args"
	case 5:
		m3[gi].Name += "x"
		what = "group name"
	}
	h3, _ := sdl.ManifestVersion(m3)
	if bytes.Equal(h1, h3) {
		return x.flag("C10/hash-ignores-field", "manifest hash unchanged after changing %s of service %s", what, s.Name)
	}
	r.Count("probe:hash-checks")
	return nil
}

func reverseKeysJSON(v interface{}) []byte {
	var b bytes.Buffer
	var enc func(v interface{})
	enc = func(v interface{}) {
		switch t := v.(type) {
		case map[string]interface{}:
			ks := make([]string, 0, len(t))
			for k := range t {
				ks = append(ks, k)
			}
			sort.Sort(sort.Reverse(sort.StringSlice(ks)))
			b.WriteByte('{')
			for i, k := range ks {
				if i > 0 {
					b.WriteByte(',')
				}
				kb, _ := json.Marshal(k)
				b.Write(kb)
				b.WriteByte(':')
				enc(t[k])
			}
			b.WriteByte('}')
		case []interface{}:
			b.WriteByte('[')
			for i, e := range t {
				if i > 0 {
					b.WriteByte(',')
				}
				enc(e)
			}
			b.WriteByte(']')
		default:
			vb, _ := json.Marshal(t)
			b.Write(vb)
		}
	}
	enc(v)
	return b.Bytes()
}

func (x *c20) submit(kind string) {
	r := x.r
	m := cloneManifest(x.curManifest)
	switch kind {
	case "valid":
		if r.Bool(50, "sub.rebuild") {
			// another valid arrangement of the same groups has another hash: only valid when it is the on-chain one
			m = cloneManifest(x.curManifest)
		}
	case "previous-version":
		// the manifest of the version that was on chain before the last update
		if len(x.versions) >= 2 {
			m = cloneManifest(x.versions[len(x.versions)-2].m)
			r.Count("probe:previous-version-submitted")
		}
	case "stale-version":
		m[0].Services[0].Image += "-old"
	case "bad-resources":
		s := &m[r.Choose(len(m), "sub.g")].Services[0]
		s.Resources.CPU = &atypes.CPU{Units: atypes.NewResourceValue(s.Resources.CPU.Units.Value() + 50)}
	case "bad-count":
		m[r.Choose(len(m), "sub.g")].Services[0].Count++
	case "bad-endpoints":
		g := &m[r.Choose(len(m), "sub.g")]
		for i := range g.Services {
			if len(g.Services[i].Expose) > 0 {
				g.Services[i].Expose = append(g.Services[i].Expose, manifest.ServiceExpose{Port: 9000, ExternalPort: 9000, Proto: manifest.TCP, Global: true})
				break
			}
		}
	case "extra-service":
		g := &m[0]
		g.Services = append(g.Services, manifest.Service{Name: "extra", Image: "img", Resources: unitOf(100, 16), Count: 1})
	case "empty":
		m = manifest.Manifest{}
	}
	sub := &mfSubmit{id: len(x.submits) + 1, m: m, kind: kind, issuedAt: x.s.Step, knownFrom: x.s.Step, done: make(chan struct{})}
	if x.l2 {
		sub.knownFrom = x.lastSync
	}
	if len(m) > 0 {
		sub.hash = canonicalHash(m)
	}
	sub.matches = x.groupsMatch(m)
	x.submits = append(x.submits, sub)
	var ctx context.Context = context.Background()
	if r.Bool(20, "sub.deadline") {
		c, cancel := context.WithTimeout(context.Background(), 30*time.Second)
		ctx = c
		_ = cancel
	}
	run := func() {
		sub.err = x.svc.Submit(ctx, x.did, m)
		close(sub.done)
	}
	if x.l2 {
		simrt.Go(fmt.Sprintf("submit%d", sub.id), run)
	} else {
		go run()
	}
	r.Ops++
	r.Logf("step %d: submit #%d (%s)", x.s.Step, sub.id, kind)
	r.Abstract("submit|" + kind)
}

func (x *c20) step() {
	r := x.r
	type stim struct {
		w int
		f func()
	}
	var st []stim
	for _, c := range x.s.Pending() {
		c := c
		st = append(st, stim{10, func() {
			x.s.Complete(c, nil)
			r.Ops++
			r.Logf("step %d: %s -> ok", x.s.Step, c.Key)
			r.Abstract("ok|" + c.Method)
		}})
		if x.faults > 0 && c.Method != "Hostnames.CanReserve" {
			st = append(st, stim{3, func() {
				x.faults--
				x.s.Complete(c, ErrInjected)
				r.Count("fault:fail-" + c.Method)
				r.Logf("step %d: %s -> FAULT error", x.s.Step, c.Key)
				r.Abstract("fail|" + c.Method)
			}})
		}
	}
	outstanding := 0
	for _, s := range x.submits {
		if !s.returned {
			outstanding++
		}
	}
	fetching, validating := false, false
	for _, c := range x.s.Pending() {
		if c.Method == "Query.Deployment" {
			fetching = true
		}
		if c.Method == "Hostnames.CanReserve" {
			validating = true // a manager sits in the middle of a validation, waiting for the hostname service
		}
	}
	if len(x.submits) < 8 && !x.busy {
		kinds := []string{"valid", "valid", "valid", "previous-version", "stale-version", "bad-resources", "bad-count", "bad-endpoints", "extra-service", "empty"}
		st = append(st, stim{9, func() {
			k := kinds[r.Choose(len(kinds), "sub.kind")]
			if fetching {
				r.Count("probe:submit-while-fetch-in-flight")
			}
			if outstanding > 0 {
				r.Count("probe:submit-while-another-outstanding")
			}
			if len(x.leasesHeld) == 0 {
				r.Count("probe:submit-without-lease")
			}
			x.submit(k)
		}})
	}
	for gi := range x.groups {
		if x.busy {
			// Layer 1 applies one stimulus per quiescent point *to an actor that can take it*: while the
			// service loop is blocked (it waits for a watchdog whose broadcast is parked) further events
			// would pile up and be picked in an order only Go's select decides
			break
		}
		gi := gi
		lp := x.leasePath(gi)
		if !x.leasesWon[lp] && !x.leasesHeld[lp] {
			st = append(st, stim{7, func() {
				g := x.groups[gi]
				if outstanding > 0 {
					r.Count("probe:lease-won-while-submit-outstanding")
				}
				x.publish(event.LeaseWon{LeaseID: x.leaseID(gi), Group: &g, Price: sdk.NewInt64Coin("uakt", 1)})
				x.leasesWon[lp] = true
				x.leasesHeld[lp] = true
				r.Ops++
				r.Mutating++
				r.Logf("step %d: LeaseWon %s", x.s.Step, lp)
				r.Abstract("leasewon")
			}})
		}
		if x.leasesHeld[lp] {
			st = append(st, stim{2, func() {
				if outstanding > 0 {
					r.Count("probe:lease-removed-while-submit-outstanding")
				}
				x.publish(mtypes.NewEventLeaseClosed(x.leaseID(gi), sdk.NewInt64Coin("uakt", 1)))
				delete(x.leasesHeld, lp)
				r.Ops++
				r.Mutating++
				r.Logf("step %d: EventLeaseClosed %s", x.s.Step, lp)
				r.Abstract("leaseclosed")
			}})
		}
	}
	if !x.closed && !x.busy {
		st = append(st, stim{4, func() {
			// the tenant updates the deployment: a new manifest becomes the on-chain version
			nm := x.nextManifest()
			x.curManifest = nm
			x.versions = append(x.versions, mfVersion{hash: canonicalHash(nm), from: x.s.Step, m: nm})
			if fetching {
				r.Count("probe:version-update-while-fetch-in-flight")
			}
			for _, c := range x.s.Pending() {
				if c.Method == "Hostnames.CanReserve" {
					r.Count("probe:version-update-while-validation-waits-for-hostnames")
				}
			}
			x.publish(dtypes.NewEventDeploymentUpdated(x.did, x.versions[len(x.versions)-1].hash))
			r.Ops++
			r.Mutating++
			r.Logf("step %d: EventDeploymentUpdated v%d", x.s.Step, len(x.versions)-1)
			r.Abstract("update")
		}})
		wClose := 1
		if fetching {
			wClose = 4
		}
		if validating {
			wClose = 6
			r.Count("probe:close-possible-while-validation-waits-for-hostnames")
		}
		st = append(st, stim{wClose, func() {
			if fetching {
				r.Count("probe:deployment-closed-while-fetch-in-flight")
			}
			x.publish(dtypes.NewEventDeploymentClosed(x.did))
			x.closed = true
			x.leasesHeld = map[string]bool{}
			r.Ops++
			r.Mutating++
			r.Logf("step %d: EventDeploymentClosed", x.s.Step)
			r.Abstract("depclosed")
		}})
	}
	st = append(st, stim{3, func() {
		ds := []time.Duration{time.Second, 40 * time.Second, 3 * time.Minute, 6 * time.Minute}
		d := ds[r.Choose(len(ds), "clock.d")]
		time.Sleep(d)
		r.SimTime += int64(d / time.Millisecond)
		r.Logf("step %d: clock +%v", x.s.Step, d)
		r.Abstract("clock")
	}})
	ws := make([]int, len(st))
	for i := range st {
		ws[i] = st[i].w
	}
	st[r.Weighted(ws, "step")].f()
}

// observe: collect replies and announcements produced by the last stimulus and check them.
func (x *c20) observe() *core.Violation {
	r := x.r
	x.s.Settle()
	// announcements first (the manager publishes before it replies)
	var now []announced
	if x.l2 {
		for _, a := range x.tapped {
			now = append(now, a)
			x.announced = append(x.announced, a)
			r.Count("probe:announcements")
			r.Logf("  announced manifest %x for lease %s (published at step %d)", a.hash[:4], a.lease, a.step)
			if !a.held {
				return x.flag("C20/announced-without-lease", "manifest announced for lease %s which the provider does not hold (never won, closed, or deployment closed) - judged at the moment of publication", a.lease)
			}
			if !a.fetched {
				return x.flag("C20/announced-before-chain-data", "manifest announced before any deployment fetch succeeded")
			}
			if !a.hasDep {
				return x.flag("C20/announced-without-deployment-data", "announcement carries no deployment data")
			}
		}
		x.tapped = nil
	}
	for !x.l2 {
		x.s.Settle()
		var got interface{}
		select {
		case got = <-x.sub.Events():
		default:
		}
		if got == nil {
			break
		}
		mr, ok := got.(event.ManifestReceived)
		if !ok {
			continue
		}
		a := announced{step: x.s.Step, lease: pathOf(mr.LeaseID), hash: canonicalHash(*mr.Manifest)}
		now = append(now, a)
		x.announced = append(x.announced, a)
		r.Count("probe:announcements")
		r.Logf("  announced manifest %x for lease %s", a.hash[:4], a.lease)
		if !x.leasesHeld[a.lease] && !x.heldLoose[a.lease] {
			return x.flag("C20/announced-without-lease", "manifest announced for lease %s which the provider does not hold (never won, closed, or deployment closed)", a.lease)
		}
		if !x.fetchOK {
			return x.flag("C20/announced-before-chain-data", "manifest announced before any deployment fetch succeeded")
		}
		if mr.Deployment == nil {
			return x.flag("C20/announced-without-deployment-data", "announcement carries no deployment data")
		}
	}
	// replies
	for _, s := range x.submits {
		if s.returned || !isDone(s.done) {
			continue
		}
		s.returned = true
		s.retAt = x.s.Step
		r.Logf("  submit #%d (%s) -> %v", s.id, s.kind, s.err)
		if s.err == nil {
			x.acceptCtr++
			s.acceptSeq = x.acceptCtr
			r.Count("probe:submit-accepted")
			// C10 (a): hash was an on-chain version at some instant between submission and reply
			okv := false
			for i, v := range x.versions {
				until := 1 << 30
				if i+1 < len(x.versions) {
					until = x.versions[i+1].from
				}
				if bytes.Equal(v.hash, s.hash) && v.from <= s.retAt && until >= s.knownFrom {
					okv = true
				}
			}
			if !okv {
				return x.flag("C10/accepted-wrong-version", "submit #%d (%s) was accepted but its hash %x was never the on-chain version between submission (step %d) and reply (step %d)", s.id, s.kind, s.hash[:4], s.issuedAt, s.retAt)
			}
			// C10 (b): resources, counts, endpoints equal the on-chain groups
			if !s.matches {
				return x.flag("C10/accepted-resource-mismatch", "submit #%d (%s) was accepted although its per-group resources/counts/endpoints differ from the on-chain groups", s.id, s.kind)
			}
			// C20: acceptance => announced
			found := false
			for _, a := range x.announced {
				if bytes.Equal(a.hash, s.hash) {
					found = true
				}
			}
			if !found {
				return x.flag("C20/accepted-but-not-announced", "submit #%d was accepted but its manifest was never announced", s.id)
			}
		} else {
			r.Count("probe:submit-rejected")
			// C10 converse: a manifest with equal per-group totals is not rejected by the resource comparison
			if s.matches && (errors.Is(s.err, validation.ErrManifestCrossValidation) || strings.Contains(s.err.Error(), "mismatch on number of")) {
				return x.flag("C10/matching-manifest-rejected-by-resource-comparison", "submit #%d (%s): per-group totals equal the on-chain groups, yet rejected: %v", s.id, s.kind, s.err)
			}
		}
	}
	// every announcement of this round carries a validated manifest, and the latest one.  A submission
	// counts as certainly validated when it was accepted; one that was answered "no lease for deployment"
	// although it is valid by the harness's own judgement may have been validated before that answer
	// (the manager keeps it and announces it once a lease arrives - DESIGN.md S14), so it is admissible too.
	for _, a := range now {
		// C10 seen from the outside: what the provider hands on for deployment is a manifest it accepted,
		// so its hash must be a version the chain recorded for this deployment at some time
		if !x.wasOnChain(a.hash, 0, x.s.Step) {
			return x.flag("C10/announced-manifest-never-on-chain", "manifest %x announced for lease %s (to be deployed) hashes to no version ever recorded on chain for the deployment", a.hash[:4], a.lease)
		}
	}
	if len(now) > 0 {
		var latestAccepted *mfSubmit
		for _, s := range x.submits {
			// Layer 2: submissions race to the service, so the order of validation is not the order of
			// issue and "latest" cannot be judged from outside; only "validated" is checked there
			if !x.l2 && s.returned && s.err == nil && (latestAccepted == nil || s.id > latestAccepted.id) {
				latestAccepted = s
			}
		}
		for _, a := range now {
			ok := false
			for _, s := range x.submits {
				if !bytes.Equal(s.hash, a.hash) {
					continue
				}
				validByHarness := s.matches && x.wasOnChain(s.hash, s.knownFrom, x.s.Step)
				if !s.returned {
					// the manager publishes before it replies: a submission still waiting for its answer
					// may be the one that was just validated
					if validByHarness && (latestAccepted == nil || s.id >= latestAccepted.id) {
						ok = true
					}
					continue
				}
				possibly := s.err == nil || (validByHarness && (errors.Is(s.err, pmanifest.ErrNoLeaseForDeployment) || errors.Is(s.err, context.DeadlineExceeded) || errors.Is(s.err, context.Canceled)))
				if possibly && (latestAccepted == nil || s.id >= latestAccepted.id) {
					ok = true
				}
			}
			if !ok {
				if latestAccepted == nil {
					return x.flag("C20/announced-unvalidated-manifest", "manifest %x announced for lease %s but no submission carrying it can have passed validation", a.hash[:4], a.lease)
				}
				return x.flag("C20/announced-not-latest", "announced manifest %x for lease %s, the latest validated manifest is %x (submit #%d)", a.hash[:4], a.lease, latestAccepted.hash[:4], latestAccepted.id)
			}
		}
	}
	if x.l2 {
		return nil
	}
	// what the provider can know: refreshed whenever its service loop is idle again
	x.busy = true
	if x.serviceResponsive() {
		x.busy = false
		x.heldLoose = map[string]bool{}
		for k := range x.leasesHeld {
			x.heldLoose[k] = true
		}
	} else {
		r.Count("probe:service-loop-busy-at-quiescence")
	}
	return nil
}

// flag reports only clauses of the property this run is checking (the scenario serves C10 and C20).
func (x *c20) flag(class, format string, a ...interface{}) *core.Violation {
	if !strings.HasPrefix(class, x.r.Property+"/") {
		return nil
	}
	return x.r.Flag(class, format, a...)
}

// serviceResponsive: the service loop answers a status request, i.e. it has consumed every event
// delivered so far (its subscription is FIFO).
func (x *c20) serviceResponsive() bool {
	ctx, cancel := context.WithCancel(context.Background())
	defer cancel()
	ok := false
	done := make(chan struct{})
	go func() {
		_, err := x.svc.Status(ctx)
		ok = err == nil
		close(done)
	}()
	time.Sleep(time.Millisecond)
	x.s.Settle()
	if !isDone(done) {
		cancel()
		x.s.Settle()
		return false
	}
	return ok
}

// wasOnChain: hash h was the on-chain version at some instant in [from, to] (scheduler steps).
func (x *c20) wasOnChain(h []byte, from, to int) bool {
	for i, v := range x.versions {
		until := 1 << 30
		if i+1 < len(x.versions) {
			until = x.versions[i+1].from
		}
		if bytes.Equal(v.hash, h) && v.from <= to && until >= from {
			return true
		}
	}
	return false
}

// slowHostnames answers availability questions only when the schedule says so (the answer itself is the
// wrapped service's).
type slowHostnames struct {
	cluster.HostnameServiceClient
	x *c20
}

func (h *slowHostnames) CanReserveHostnames(hostnames []string, did dtypes.DeploymentID) <-chan error {
	ch := make(chan error, 1)
	go func() {
		if _, err := h.x.s.Do(nil, 1, "Hostnames.CanReserve", "Hostnames.CanReserve", nil); err != nil {
			ch <- err
			return
		}
		ch <- <-h.HostnameServiceClient.CanReserveHostnames(hostnames, did)
	}()
	return ch
}

func (x *c20) finish() *core.Violation {
	r := x.r
	r.Logf("final phase: drain")
	for i := 0; i < 120; i++ {
		x.s.Settle()
		x.s.Tick()
		for _, c := range x.s.Pending() {
			x.s.Complete(c, nil)
		}
		if v := x.observe(); v != nil {
			return v
		}
		open := 0
		for _, s := range x.submits {
			if !s.returned {
				open++
			}
		}
		if open == 0 && len(x.s.Pending()) == 0 && i > 2 {
			break
		}
		time.Sleep(time.Second)
	}
	for _, s := range x.submits {
		if !s.returned {
			return x.flag("C20/submit-never-answered", "submit #%d (%s) issued at step %d got no reply within the drain budget (leases held: %d, fetch ok: %v)", s.id, s.kind, s.issuedAt, len(x.leasesHeld), x.fetchOK)
		}
	}
	return nil
}
