package provsim

import (
	"context"
	"fmt"
	"math/rand"
	"sort"
	"time"

	sdk "github.com/cosmos/cosmos-sdk/types"
	"github.com/tendermint/tendermint/libs/log"

	"github.com/ovrclk/akash/client"
	"github.com/ovrclk/akash/client/broadcaster"
	"github.com/ovrclk/akash/manifest"
	"github.com/ovrclk/akash/provider/cluster"
	ctypes "github.com/ovrclk/akash/provider/cluster/types"
	"github.com/ovrclk/akash/provider/event"
	"github.com/ovrclk/akash/provider/session"
	"github.com/ovrclk/akash/pubsub"
	atypes "github.com/ovrclk/akash/types"
	"github.com/ovrclk/akash/types/unit"
	dtypes "github.com/ovrclk/akash/x/deployment/types"
	mquery "github.com/ovrclk/akash/x/market/query"
	mtypes "github.com/ovrclk/akash/x/market/types"
	ptypes "github.com/ovrclk/akash/x/provider/types"

	"verifsim/core"
)

// ------------------------------------------------------------------ stubs for the cluster service

type cluClient struct {
	cluster.Client // nil: unmodelled methods panic loudly
	s              *Sched
	inc            int
	nodes          func() []ctypes.Node
	// existing: what the cluster already runs when the provider starts (start-up histories); the call
	// then takes time like every other cluster call
	existing []ctypes.Deployment
}

// runningDeployment is a workload found in the cluster at start-up.
type runningDeployment struct {
	lid   mtypes.LeaseID
	group manifest.Group
}

func (d runningDeployment) LeaseID() mtypes.LeaseID       { return d.lid }
func (d runningDeployment) ManifestGroup() manifest.Group { return d.group }

func (c *cluClient) Deploy(ctx context.Context, lid mtypes.LeaseID, g *manifest.Group) error {
	_, err := c.s.Do(nil, c.inc, "Cluster.Deploy", "Cluster.Deploy "+mquery.LeasePath(lid), g)
	return err
}

func (c *cluClient) TeardownLease(ctx context.Context, lid mtypes.LeaseID) error {
	_, err := c.s.Do(nil, c.inc, "Cluster.TeardownLease", "Cluster.TeardownLease "+mquery.LeasePath(lid), lid)
	return err
}

func (c *cluClient) Deployments(ctx context.Context) ([]ctypes.Deployment, error) {
	if c.existing == nil {
		return nil, nil
	}
	if _, err := c.s.Do(nil, c.inc, "Cluster.Deployments", "Cluster.Deployments", nil); err != nil {
		return nil, err
	}
	return c.existing, nil
}

func (c *cluClient) Inventory(ctx context.Context) ([]ctypes.Node, error) {
	v, err := c.s.Do(ctx, c.inc, "Cluster.Inventory", "Cluster.Inventory", nil)
	if err != nil {
		return nil, err
	}
	return v.([]ctypes.Node), nil
}

func (c *cluClient) LeaseStatus(ctx context.Context, lid mtypes.LeaseID) (*ctypes.LeaseStatus, error) {
	v, err := c.s.Do(ctx, c.inc, "Cluster.LeaseStatus", "Cluster.LeaseStatus "+mquery.LeasePath(lid), lid)
	if err != nil {
		return nil, err
	}
	return v.(*ctypes.LeaseStatus), nil
}

type cluQuery struct {
	client.QueryClient
	s *Sched
	// active: the leases the node reports as active; the node evaluates the query when it arrives, the
	// answer is then on its way for a while (start-up histories only)
	active []mtypes.QueryLeaseResponse
}

func (q *cluQuery) ActiveLeasesForProvider(id sdk.AccAddress) ([]mtypes.QueryLeaseResponse, error) {
	if q.active == nil {
		return nil, nil
	}
	answer := q.active
	if _, err := q.s.Do(nil, 1, "Query.ActiveLeases", "Query.ActiveLeases", nil); err != nil {
		return nil, err
	}
	return answer, nil
}

type cluTx struct {
	s   *Sched
	inc int
}

func (t *cluTx) Broadcast(ctx context.Context, msgs ...sdk.Msg) error {
	key := fmt.Sprintf("Tx.%T", msgs[0])
	switch m := msgs[0].(type) {
	case *mtypes.MsgWithdrawLease:
		key = "Tx.WithdrawLease " + mquery.LeasePath(m.LeaseID)
	case *mtypes.MsgCloseBid:
		key = "Tx.CloseBid " + mquery.OrderPath(m.BidID.OrderID())
	}
	_, err := t.s.Do(ctx, t.inc, "Tx.Broadcast", key, msgs[0])
	return err
}

type cluChainClient struct {
	q  *cluQuery
	tx *cluTx
}

func (c *cluChainClient) Query() client.QueryClient { return c.q }
func (c *cluChainClient) Tx() broadcaster.Client    { return c.tx }

func bigNode() ctypes.Node {
	ru := atypes.ResourceUnits{
		CPU:     &atypes.CPU{Units: atypes.NewResourceValue(64000)},
		Memory:  &atypes.Memory{Quantity: atypes.NewResourceValue(256 * unit.Gi)},
		Storage: &atypes.Storage{Quantity: atypes.NewResourceValue(4 * unit.Ti)},
	}
	return cluster.NewNode("node-1", ru, ru)
}

// ------------------------------------------------------------------ scenario

type mLease struct {
	id         mtypes.LeaseID
	group      dtypes.Group
	key        string
	hosts      []string
	swapHosts  bool
	// blockedSecond: every manifest of the lease also names a hostname on the provider's block list, so
	// its hostname reservation is refused and no deploy ever happens (treated like a failed deploy)
	blockedSecond bool
	reserved   bool // harness holds a reservation for its order
	lastSent   int  // version of the last manifest announced (0 = none)
	closedAt   int  // scheduler step at which EventLeaseClosed was delivered (0 = not closed)
	closedWith bool // a manager existed when the close was delivered
	lateSent   int  // manifests announced after the lease had closed
	deployFail bool // some deploy of this lease returned an error
	managed    bool // the harness believes a manager exists
	// existing: the workload was already running when the provider started
	existing bool
}

type c14 struct {
	r      *core.Run
	s      *Sched
	bus    pubsub.Bus
	svc    cluster.Service
	cancel context.CancelFunc
	leases []*mLease
	prov   ptypes.Provider
	faults int
	// shutdown: the provider was told to stop in the middle of the history; from then on only the safety
	// clauses are judged (what must still happen after a close is no longer the running provider's job)
	shutdown    bool
	mayShutdown bool // per-run knob: only some histories contain a shutdown
}

func (x *c14) manifestFor(l *mLease, version int) (*manifest.Manifest, *manifest.Group) {
	g := manifest.Group{Name: l.group.GroupSpec.Name}
	for i, res := range l.group.GroupSpec.Resources {
		svc := manifest.Service{Name: fmt.Sprintf("svc%d", i), Image: fmt.Sprintf("img:v%d", version), Resources: res.Resources, Count: res.Count}
		if i == 0 && len(l.hosts) > 0 {
			svc.Expose = []manifest.ServiceExpose{{Port: 80, Proto: manifest.TCP, Global: true, Hosts: l.hostsFor(version)}}
		}
		g.Services = append(g.Services, svc)
	}
	m := manifest.Manifest{g}
	return &m, &g
}

// hostsFor: with swapHosts every second manifest version asks for another hostname than the first one
// (an update that drops one hostname and claims another).
func (l *mLease) hostsFor(version int) []string {
	var hs []string
	if len(l.hosts) == 0 || !l.swapHosts || version%2 == 1 {
		hs = l.hosts
	} else {
		hs = []string{"alt-" + l.hosts[0]}
	}
	if l.blockedSecond && len(hs) > 0 {
		// a free hostname first, then one the provider refuses: the reservation as a whole is refused
		hs = append(append([]string{}, hs...), blockedHost)
	}
	return hs
}

const blockedHost = "blocked.example.com"

// everHosts: every hostname some manifest version of the lease asked for.
func (l *mLease) everHosts() []string {
	if len(l.hosts) == 0 {
		return nil
	}
	if l.swapHosts && l.lastSent >= 2 {
		return []string{l.hosts[0], "alt-" + l.hosts[0]}
	}
	return l.hosts
}

func versionOf(g *manifest.Group) int {
	var v int
	fmt.Sscanf(g.Services[0].Image, "img:v%d", &v)
	return v
}

func runC14(r *core.Run) *core.Violation {
	x := &c14{r: r, s: NewSched(r)}
	rand.Seed(1) // jitter of the health-check timers (cluster/monitor.go) is pinned
	x.faults = r.Weighted([]int{3, 3, 2, 1}, "knob.faults")
	x.mayShutdown = r.Bool(25, "knob.shutdown-mid-history")
	nLeases := 1 + r.Choose(2, "knob.leases")
	steps := 10 + r.Choose(35, "knob.steps")
	prov := testAddr(1)
	x.prov = ptypes.Provider{Owner: prov.String(), HostURI: "https://p.example.com"}
	x.s.Respond = func(c *Call) (interface{}, error) {
		switch c.Method {
		case "Cluster.Inventory":
			return []ctypes.Node{bigNode()}, nil
		case "Cluster.LeaseStatus":
			// healthy / unhealthy by choice
			lid := c.Args.(mtypes.LeaseID)
			st := &ctypes.LeaseStatus{Services: map[string]*ctypes.ServiceStatus{}}
			healthy := r.Bool(70, "leasestatus.healthy")
			for _, l := range x.leases {
				if l.id.Equals(lid) {
					for i, res := range l.group.GroupSpec.Resources {
						av := int32(res.Count)
						if !healthy {
							av = 0
						}
						st.Services[fmt.Sprintf("svc%d", i)] = &ctypes.ServiceStatus{Name: fmt.Sprintf("svc%d", i), Available: av, Total: int32(res.Count)}
					}
				}
			}
			return st, nil
		}
		return nil, nil
	}
	x.bus = pubsub.NewBus()
	cl := &cluChainClient{q: &cluQuery{}, tx: &cluTx{s: x.s, inc: 1}}
	sess := session.New(log.NewNopLogger(), cl, &x.prov)
	ctx, cancel := context.WithCancel(context.Background())
	x.cancel = cancel
	cfg := cluster.NewDefaultConfig()
	cfg.InventoryExternalPortQuantity = 100
	cfg.BlockedHostnames = []string{blockedHost}
	tenant := testAddr(3)
	for i := 0; i < nLeases; i++ {
		oid := mtypes.OrderID{Owner: tenant.String(), DSeq: uint64([]int{1, 12}[i]), GSeq: 1, OSeq: 1}
		gs := simpleGroupSpec("web", 10, uint32(1+r.Choose(2, "lease.count")))
		l := &mLease{id: mtypes.MakeLeaseID(mtypes.MakeBidID(oid, prov)), group: dtypes.Group{GroupID: oid.GroupID(), State: dtypes.GroupOpen, GroupSpec: gs}}
		l.key = mquery.LeasePath(l.id)
		if r.Bool(60, "lease.hosts") {
			l.hosts = []string{fmt.Sprintf("app%d.example.com", i)}
			l.swapHosts = r.Bool(40, "lease.swap-hosts")
			l.blockedSecond = r.Bool(15, "lease.blocked-second-host")
		}
		x.leases = append(x.leases, l)
	}
	// start-up history: the provider (re)starts while the cluster already runs workloads of active leases
	cc := &cluClient{s: x.s, inc: 1}
	if r.Bool(25, "knob.startup-with-workloads") {
		for _, l := range x.leases {
			if l.blockedSecond || !r.Bool(70, "startup.existing") {
				continue
			}
			l.existing, l.lastSent, l.managed = true, 1, true
			_, g := x.manifestFor(l, 1)
			cc.existing = append(cc.existing, runningDeployment{lid: l.id, group: *g})
			cl.q.s = x.s
			cl.q.active = append(cl.q.active, mtypes.QueryLeaseResponse{Lease: mtypes.Lease{LeaseID: l.id, State: mtypes.LeaseActive}})
		}
	}
	var err error
	if cc.existing == nil {
		x.svc, err = cluster.NewService(ctx, sess, x.bus, cc, cfg)
	} else {
		err = x.startup(ctx, sess, cc, cfg)
	}
	if err != nil {
		panic(err)
	}
	defer func() {
		// leave the bubble: stop everything, complete whatever is still parked
		go x.svc.Close()
		for i := 0; i < 200; i++ {
			x.s.Settle()
			if isDone(x.svc.Done()) {
				break
			}
			for _, c := range x.s.Pending() {
				x.s.Complete(c, nil)
			}
			time.Sleep(time.Second)
		}
		x.cancel()
		x.bus.Close()
		x.s.Settle()
	}()
	// first inventory
	x.s.Settle()
	x.completeAll("Cluster.Inventory")
	x.s.Settle()
	for _, l := range x.leases {
		l.reserved = true
		if l.existing {
			continue // the inventory accounts for a workload found at start-up by itself
		}
		// the bid engine reserved resources for the order before the lease was won
		var rerr error
		gs := l.group.GroupSpec
		if !returnsPromptly(func() { _, rerr = x.svc.Reserve(l.id.OrderID(), gs) }) || rerr != nil {
			panic(fmt.Sprintf("harness: initial reservation failed: %v", rerr))
		}
	}
	r.Logf("knobs: leases=%d steps=%d faults=%d", nLeases, steps, x.faults)
	for i := 0; i < steps; i++ {
		r.Mark()
		if r.Switch("skip.step") {
			continue
		}
		x.s.Settle()
		x.s.Tick()
		if v := x.step(); v != nil {
			return v
		}
		x.s.Settle()
		if v := x.checkSafety(); v != nil {
			return v
		}
	}
	return x.finish()
}

// startup runs cluster.NewService over workloads that are already running; the cluster and the node take
// their time to say what is running and which leases are active.  (Events that arrive while the service
// is still starting race with the first steps of the managers it creates, which only the goroutine-level
// scheduler can order: those histories are part of the Layer-2 scenario, c14_l2.go.)
func (x *c14) startup(ctx context.Context, sess session.Session, cc *cluClient, cfg cluster.Config) error {
	r := x.r
	var err error
	ready := make(chan struct{})
	go func() {
		defer close(ready)
		x.svc, err = cluster.NewService(ctx, sess, x.bus, cc, cfg)
	}()
	r.Count("probe:startup-with-workloads")
	r.Logf("start-up: %d workloads already running", len(cc.existing))
	for i := 0; i < 40 && !isDone(ready); i++ {
		x.s.Settle()
		x.s.Tick()
		var waiting *Call
		for _, c := range x.s.Pending() {
			if c.Method == "Cluster.Deployments" || c.Method == "Query.ActiveLeases" {
				waiting = c
			}
		}
		if waiting == nil {
			time.Sleep(time.Second)
			continue
		}
		x.s.Complete(waiting, nil)
		r.Logf("step %d: %s -> ok", x.s.Step, waiting.Key)
	}
	x.s.Settle()
	if !isDone(ready) {
		panic("harness: cluster.NewService did not return")
	}
	return err
}

func (x *c14) completeAll(method string) {
	for _, c := range x.s.Pending() {
		if c.Method == method {
			x.s.Complete(c, nil)
		}
	}
}

func (x *c14) publish(ev interface{}) {
	if !returnsPromptly(func() {
		if err := x.bus.Publish(ev); err != nil {
			panic(err)
		}
	}) {
		panic("harness: bus publish blocked")
	}
}

func (x *c14) step() *core.Violation {
	r := x.r
	type stim struct {
		w int
		f func()
	}
	var st []stim
	pend := x.s.Pending()
	if x.mayShutdown && !x.shutdown {
		busy := ""
		for _, c := range pend {
			if c.Method == "Cluster.Deploy" || c.Method == "Cluster.TeardownLease" {
				busy = c.Method
			}
		}
		w := 1
		if busy != "" {
			w = 2
		}
		st = append(st, stim{w, func() {
			x.shutdown = true
			go x.svc.Close()
			r.Ops++
			r.Mutating++
			r.Count("probe:shutdown-mid-history")
			if busy != "" {
				r.Count("probe:shutdown-during-" + busy)
			}
			r.Logf("step %d: provider shutdown requested (in flight: %q)", x.s.Step, busy)
			r.Abstract("shutdown")
		}})
	}
	for _, c := range pend {
		c := c
		w := 10
		if c.Method == "Cluster.Inventory" || c.Method == "Cluster.LeaseStatus" {
			w = 4
		}
		st = append(st, stim{w, func() {
			x.s.Complete(c, nil)
			r.Ops++
			r.Logf("step %d: %s -> ok", x.s.Step, c.Key)
			r.Abstract("ok|" + c.Method)
		}})
		if x.faults > 0 {
			st = append(st, stim{3, func() {
				x.faults--
				x.s.Complete(c, ErrInjected)
				if c.Method == "Cluster.Deploy" {
					for _, l := range x.leases {
						if "Cluster.Deploy "+l.key == c.Key {
							l.deployFail = true
						}
					}
				}
				r.Count("fault:fail-" + c.Method)
				r.Logf("step %d: %s -> FAULT error", x.s.Step, c.Key)
				r.Abstract("fail|" + c.Method)
			}})
		}
	}
	for _, l := range x.leases {
		l := l
		if x.shutdown {
			break // a stopping provider is sent nothing more; its cluster calls still complete or fail
		}
		if l.closedAt != 0 {
			// the chain and the tenant do not coordinate with the provider: a late manifest or a repeated
			// lease-closed signal for a lease that is already being torn down must change nothing
			st = append(st, stim{2, func() {
				l.lateSent++
				m, _ := x.manifestFor(l, 100+l.lateSent)
				if in := x.inflight(l); in != "" {
					r.Count("probe:manifest-after-close-during-" + in)
				}
				x.publish(event.ManifestReceived{LeaseID: l.id, Manifest: m, Group: &l.group, Deployment: &dtypes.QueryDeploymentResponse{}})
				r.Ops++
				r.Logf("step %d: ManifestReceived %s (late, after lease closed)", x.s.Step, l.key)
				r.Abstract("latemanifest")
			}})
			st = append(st, stim{1, func() {
				if in := x.inflight(l); in != "" {
					r.Count("probe:second-close-during-" + in)
				}
				x.publish(mtypes.NewEventLeaseClosed(l.id, sdk.NewInt64Coin("uakt", 10)))
				r.Ops++
				r.Logf("step %d: EventLeaseClosed %s (repeated)", x.s.Step, l.key)
				r.Abstract("secondclose")
			}})
		}
		if l.closedAt == 0 {
			st = append(st, stim{8, func() {
				l.lastSent++
				if l.blockedSecond {
					l.deployFail = true
					r.Count("probe:hostname-reservation-refused")
				}
				m, _ := x.manifestFor(l, l.lastSent)
				inflight := x.inflight(l)
				if inflight != "" {
					r.Count("probe:update-during-" + inflight)
				}
				if l.lastSent > 1 && inflight == "" {
					r.Count("probe:update-when-idle")
				}
				x.publish(event.ManifestReceived{LeaseID: l.id, Manifest: m, Group: &l.group, Deployment: &dtypes.QueryDeploymentResponse{}})
				l.managed = true
				r.Ops++
				r.Mutating++
				r.Logf("step %d: ManifestReceived %s v%d", x.s.Step, l.key, l.lastSent)
				r.Abstract("manifest")
			}})
			st = append(st, stim{4, func() {
				inflight := x.inflight(l)
				if inflight != "" {
					r.Count("probe:close-during-" + inflight)
				}
				if l.lastSent == 0 {
					r.Count("probe:close-before-any-manifest")
				}
				x.publish(mtypes.NewEventLeaseClosed(l.id, sdk.NewInt64Coin("uakt", 10)))
				l.closedAt = x.s.Step
				l.closedWith = l.lastSent > 0 && !l.deployFail
				r.Ops++
				r.Mutating++
				r.Logf("step %d: EventLeaseClosed %s", x.s.Step, l.key)
				r.Abstract("leaseclosed")
			}})
		}
	}
	st = append(st, stim{4, func() {
		ds := []time.Duration{time.Second, 6 * time.Second, 20 * time.Second, 3 * time.Minute}
		d := ds[r.Choose(len(ds), "clock.d")]
		time.Sleep(d)
		r.SimTime += int64(d / time.Millisecond)
		r.Logf("step %d: clock +%v", x.s.Step, d)
		r.Abstract("clock")
	}})
	st = append(st, stim{1, func() {
		x.publish(event.LeaseWithdrawNow{})
		r.Logf("step %d: LeaseWithdrawNow", x.s.Step)
		r.Abstract("withdrawnow")
	}})
	ws := make([]int, len(st))
	for i := range st {
		ws[i] = st[i].w
	}
	st[r.Weighted(ws, "step")].f()
	return nil
}

// inflight names the cluster operation currently running for the lease ("" if none).
func (x *c14) inflight(l *mLease) string {
	for _, c := range x.s.Pending() {
		if c.Key == "Cluster.Deploy "+l.key {
			return "deploy"
		}
		if c.Key == "Cluster.TeardownLease "+l.key {
			return "teardown"
		}
	}
	return ""
}

func (x *c14) opsOf(l *mLease) []*Call {
	return x.s.CallsWhere(func(c *Call) bool {
		return c.Key == "Cluster.Deploy "+l.key || c.Key == "Cluster.TeardownLease "+l.key
	})
}

func (x *c14) checkSafety() *core.Violation {
	r := x.r
	for _, l := range x.leases {
		ops := x.opsOf(l)
		// no two cluster operations of one lease overlap
		for i := 0; i < len(ops); i++ {
			for j := i + 1; j < len(ops); j++ {
				a, b := ops[i], ops[j]
				aEnd := a.End
				if aEnd == 0 {
					aEnd = 1 << 30
				}
				if b.Start < aEnd && a.ID != b.ID {
					return r.Flag("C14/concurrent-cluster-operations", "lease %s: %s was started while %s was still running", l.key, b, a)
				}
			}
		}
		// no deploy starts after teardown was requested
		if l.closedAt != 0 && l.closedWith {
			for _, c := range ops {
				if c.Method == "Cluster.Deploy" && c.Start > l.closedAt {
					return r.Flag("C14/deploy-after-teardown-requested", "lease %s: lease-closed was delivered at step %d, yet %s started afterwards", l.key, l.closedAt, c)
				}
			}
		}
	}
	return nil
}

// obligations that must be met once everything has been allowed to finish
func (x *c14) obligations(final bool) (pending string, v *core.Violation) {
	r := x.r
	for _, l := range x.leases {
		ops := x.opsOf(l)
		var lastDeploy *Call
		for _, c := range ops {
			if c.Method == "Cluster.Deploy" {
				lastDeploy = c
			}
		}
		if l.closedAt != 0 && l.closedWith {
			// teardown after the last deploy finished
			if lastDeploy != nil && lastDeploy.End == 0 {
				return "deploy still running on closed lease " + l.key, nil
			}
			ok := false
			var td *Call
			for _, c := range ops {
				if c.Method == "Cluster.TeardownLease" && (lastDeploy == nil || c.Start >= lastDeploy.End) {
					ok = true
					td = c
				}
			}
			if !ok {
				if final {
					return "", r.Flag("C14/no-teardown-after-close", "lease %s closed at step %d while managed; no TeardownLease was invoked after its last deploy (%v)", l.key, l.closedAt, lastDeploy)
				}
				return "waiting for teardown of " + l.key, nil
			}
			if td.End == 0 {
				return "teardown running for " + l.key, nil
			}
		}
		if l.closedAt == 0 && !l.deployFail && l.lastSent > 0 {
			// the last deploy issued uses the most recently received manifest
			if lastDeploy == nil {
				if final {
					return "", r.Flag("C14/manifest-never-deployed", "lease %s: manifest v%d was announced but never deployed", l.key, l.lastSent)
				}
				return "waiting for first deploy of " + l.key, nil
			}
			if got := versionOf(lastDeploy.Args.(*manifest.Group)); got != l.lastSent {
				if final {
					return "", r.Flag("C14/stale-manifest-deployed", "lease %s: the last deploy issued used manifest v%d, the most recently received is v%d", l.key, got, l.lastSent)
				}
				return fmt.Sprintf("lease %s deployed v%d, latest v%d", l.key, got, l.lastSent), nil
			}
			if lastDeploy.End == 0 {
				return "deploy running for " + l.key, nil
			}
		}
	}
	return "", nil
}

func (x *c14) finish() *core.Violation {
	r := x.r
	if x.shutdown {
		// the provider is stopping: let every cluster call return, judge the safety clauses only
		for i := 0; i < 200; i++ {
			x.s.Settle()
			x.s.Tick()
			if v := x.checkSafety(); v != nil {
				return v
			}
			p := x.s.Pending()
			if len(p) == 0 && isDone(x.svc.Done()) {
				break
			}
			for _, c := range p {
				x.s.Complete(c, nil)
			}
			time.Sleep(2 * time.Second)
		}
		x.s.Settle()
		return x.checkSafety()
	}
	r.Logf("final phase: drain")
	// fair drain: every parked call completes successfully, the clock advances past every retry
	budget := 400
	var pendingWhy string
	for i := 0; i < budget; i++ {
		x.s.Settle()
		x.s.Tick()
		if v := x.checkSafety(); v != nil {
			return v
		}
		why, v := x.obligations(false)
		if v != nil {
			return v
		}
		pendingWhy = why
		busy := false
		for _, c := range x.s.Pending() {
			if c.Method == "Cluster.Deploy" || c.Method == "Cluster.TeardownLease" {
				busy = true
			}
			x.s.Complete(c, nil)
		}
		if why == "" && !busy && i > 3 {
			break
		}
		time.Sleep(2 * time.Second)
	}
	x.s.Settle()
	if _, v := x.obligations(true); v != nil {
		return v
	}
	if pendingWhy != "" {
		if why, _ := x.obligations(false); why != "" {
			return r.Flag("C14/no-progress-after-faults-stopped", "after %d drain rounds with no further faults: %s", budget, why)
		}
	}
	// released: reservation gone and hostnames reservable by another deployment
	st, err := statusOf(x.svc)
	if err != nil {
		panic(err)
	}
	want := 0
	for _, l := range x.leases {
		ended := (l.closedAt != 0) || l.deployFail
		if !ended {
			want++
		}
	}
	have := len(st.Inventory.Active) + len(st.Inventory.Pending)
	if have != want {
		var ks []string
		for _, l := range x.leases {
			ks = append(ks, fmt.Sprintf("%s closed@%d deployFail=%v manifests=%d", l.key, l.closedAt, l.deployFail, l.lastSent))
		}
		sort.Strings(ks)
		return r.Flag("C14/reservation-not-released", "after drain %d reservations are outstanding, %d leases are still alive (%v)", have, want, ks)
	}
	for _, l := range x.leases {
		if l.closedAt != 0 && len(l.hosts) > 0 {
			r.Count("probe:hostnames-release-checked")
			other := dtypes.DeploymentID{Owner: testAddr(9).String(), DSeq: 999}
			var herr error
			if !returnsPromptly(func() { herr = <-x.svc.HostnameService().CanReserveHostnames(l.everHosts(), other) }) {
				panic("harness: hostname service did not answer")
			}
			if herr != nil {
				return r.Flag("C14/hostnames-not-released", "lease %s is closed and torn down but its hostnames %v cannot be reserved by another deployment: %v", l.key, l.everHosts(), herr)
			}
		}
		if l.closedAt != 0 && l.closedWith {
			r.Count("probe:teardown-obligation-met")
		}
		if l.closedAt == 0 && !l.deployFail && l.lastSent > 1 {
			r.Count("probe:latest-manifest-obligation-met")
		}
	}
	return nil
}

func statusOf(svc cluster.Service) (*ctypes.Status, error) {
	var st *ctypes.Status
	var err error
	if !returnsPromptly(func() { st, err = svc.Status(context.Background()) }) {
		return nil, fmt.Errorf("harness: Status did not return")
	}
	return st, err
}
