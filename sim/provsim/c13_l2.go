package provsim

import (
	"fmt"
	"time"

	mquery "github.com/ovrclk/akash/x/market/query"
	mtypes "github.com/ovrclk/akash/x/market/types"

	"verifsim/core"
	"verifsim/simrt"
)

// ------------------------------------------------------------------ C13, Layer 2: the bid engine's service
// loop, order monitors, attribute service, the bus and its subscribers are resumed one scheduling
// point at a time; chain events are published by an injector task, so several events can be buffered
// in a subscription before its owner runs (e.g. order-created and order-closed both pending when the
// service clones its subscription for the new monitor).  The final phase (graceful shutdown, drain,
// obligations) is the Layer-1 one.

func runC13L2(r *core.Run) (*core.Violation, func() *core.Violation) {
	x := &c13{r: r, s: NewSched(r)}
	x.s.Inc = 0
	x.s.Respond = x.respond
	m := newBidChain(x.s)
	x.m = m
	timeouts := []time.Duration{5 * time.Minute, 0, 30 * time.Second}
	x.cfg.bidTimeout = timeouts[r.Choose(len(timeouts), "knob.bidTimeout")]
	x.cfg.faults = r.Weighted([]int{3, 4, 2}, "knob.faults")
	x.cfg.maxOrders = 1 + r.Choose(3, "knob.orders")
	m.attested = r.Bool(60, "knob.attested")
	maxSteps := 80 + r.Choose(500, "knob.l2steps")
	chainOps := 2 + r.Choose(6, "knob.chainops")
	r.Logf("L2 knobs: bidTimeout=%v faults=%d maxOrders=%d attested=%v steps=%d chainops=%d", x.cfg.bidTimeout, x.cfg.faults, x.cfg.maxOrders, m.attested, maxSteps, chainOps)

	simrt.Enable(r)
	released := false
	stop := false // ends the chain-events injector task; set before the goroutines are released (a released
	// injector that is not told to stop would spin and keep the bubble from ever becoming idle)
	release := func() {
		if !released {
			released = true
			stop = true
			simrt.ReleaseAll()
		}
	}
	defer release()
	// start the service as a simulated task under a fair schedule
	loop := &l2Loop{r: r, s: x.s, faults: 0}
	started := false
	simrt.Go("start", func() {
		inc, start := x.newIncarnation()
		svc, err := start()
		if err != nil {
			panic(err)
		}
		inc.svc = svc
		x.cur = inc
		x.all = append(x.all, inc)
		started = true
	})
	loop.drain(400, func() bool { return started })
	if !started {
		panic("harness: C13 L2 service start did not complete under a fair schedule")
	}
	inc := x.cur
	// injector: publishes the chain's events in order, one per scheduling turn
	simrt.Go("chain-events", func() {
		for !stop {
			simrt.Yield("inject-wait")
			if stop {
				return
			}
			if len(m.outbox) == 0 {
				continue
			}
			ev := m.outbox[0]
			m.outbox = m.outbox[1:]
			buffered := len(m.outbox)
			r.Logf("step %d: publish %s", x.s.Step, evName(ev))
			if buffered > 0 {
				r.Count("probe:l2-event-published-with-more-queued")
			}
			if err := inc.bus.Publish(ev); err != nil {
				return
			}
		}
	})
	loop.faults = x.cfg.faults
	loop.idle = func(g *simrt.G) bool { return g.Name == "chain-events" && len(m.outbox) == 0 }
	loop.idleSteps = r.Bool(40, "knob.l2-sparse-schedule")
	loop.failable = func(c *Call) bool { return true }
	loop.extra = func() []l2Stim {
		var st []l2Stim
		if chainOps > 0 {
			if len(m.okeys) < x.cfg.maxOrders {
				st = append(st, l2Stim{"new-order", 4, func() {
					chainOps--
					o := x.newOrder()
					r.Ops++
					r.Mutating++
					r.Logf("step %d: chain: order %s created (max %s)", x.s.Step, mquery.OrderPath(o.ID), o.Group.GroupSpec.Price())
				}})
			}
			for _, k := range m.okeys {
				o := m.orders[k]
				k := k
				if o.State != mtypes.OrderOpen {
					continue
				}
				st = append(st, l2Stim{"close", 2, func() {
					chainOps--
					o.State = mtypes.OrderClosed
					o.BidOnChain = false
					m.outbox = append(m.outbox, mtypes.NewEventOrderClosed(o.ID))
					r.Ops++
					r.Mutating++
					if len(x.s.Pending()) > 0 {
						r.Count("probe:l2-chain-close-while-call-in-flight")
					}
					r.Logf("step %d: chain: order %s closed", x.s.Step, k)
				}})
				if o.BidOnChain {
					st = append(st, l2Stim{"lease-ours", 3, func() {
						chainOps--
						o.State = mtypes.OrderActive
						o.Leased = m.provAddr.String()
						m.outbox = append(m.outbox, mtypes.NewEventLeaseCreated(mtypes.MakeLeaseID(mtypes.MakeBidID(o.ID, m.provAddr)), o.BidPrice))
						r.Ops++
						r.Mutating++
						r.Logf("step %d: chain: lease for %s goes to US", x.s.Step, k)
					}})
				}
				st = append(st, l2Stim{"lease-other", 1, func() {
					chainOps--
					o.State = mtypes.OrderActive
					o.Leased = m.other.String()
					o.BidOnChain = false
					m.outbox = append(m.outbox, mtypes.NewEventLeaseCreated(mtypes.MakeLeaseID(mtypes.MakeBidID(o.ID, m.other)), o.BidPrice))
					r.Ops++
					r.Mutating++
					r.Logf("step %d: chain: lease for %s goes to ANOTHER provider", x.s.Step, k)
				}})
			}
		}
		if chainOps > 0 && len(m.okeys) > 0 {
			st = append(st, l2Stim{"noise", 2, func() {
				chainOps--
				ev := x.noiseEvent(m.orders[m.okeys[r.Choose(len(m.okeys), "noise.order")]])
				m.outbox = append(m.outbox, ev)
				r.Logf("step %d: chain: noise %s", x.s.Step, evName(ev))
			}})
		}
		st = append(st, l2Stim{"clock", 1, func() {
			d := []time.Duration{time.Second, 20 * time.Second, 6 * time.Minute}[r.Choose(3, "clock.d")]
			time.Sleep(d)
			r.SimTime += int64(d / time.Millisecond)
			r.Logf("step %d: clock +%v", x.s.Step, d)
		}})
		return st
	}
	loop.onStep = func() *core.Violation {
		// LeaseWon announcements are observed by a harness subscriber; reading it is not instrumented
		for {
			select {
			case ev := <-inc.sub.Events():
				x.noteObserved(inc, ev)
				continue
			default:
			}
			break
		}
		return x.checkSafety()
	}
	quietSince := -1
	if v := loop.run(maxSteps, func() bool {
		if chainOps == 0 && len(m.outbox) == 0 {
			if quietSince < 0 {
				quietSince = loop.steps
			}
			return loop.steps-quietSince > 60
		}
		return false
	}); v != nil {
		return v, nil
	}
	stop = true
	r.SimTime += int64(loop.steps)
	r.Count("probe:l2-runs-completed")
	r.Abstract(fmt.Sprintf("l2 orders=%d calls=%d", len(m.okeys), len(x.s.History)))
	// final phase, still under the scheduler (a free-running phase would let Go's select decide):
	// graceful shutdown by a task, fair round-robin drain with every parked call completing
	r.Logf("final phase: shutdown of incarnation %d", inc.n)
	simrt.Go("shutdown", func() { inc.svc.Close() })
	for round := 0; round < 60; round++ {
		loop.drain(30, func() bool { return isDone(inc.svc.Done()) && len(x.s.Pending()) == 0 })
		x.s.Settle()
		if v := loop.onStep(); v != nil {
			return v, nil
		}
		if isDone(inc.svc.Done()) && len(x.s.Pending()) == 0 {
			break
		}
		time.Sleep(10 * time.Second)
	}
	x.s.Settle()
	if !isDone(inc.svc.Done()) {
		r.Count("obs:service-did-not-terminate-after-shutdown")
	}
	// the service being done does not mean that the bus has handed everything on: a LeaseWon published by
	// an order monitor on its way out may still sit between the bus and the harness' own subscription
	// (their goroutines are scheduled like all others).  Let everything that can still move come to rest
	// before the announcements are read - otherwise a won lease is taken for an order that "ended without
	// LeaseWon" and its kept reservation for a leak.
	for round := 0; round < 20; round++ {
		loop.drainNoComplete(400)
		x.s.Settle()
		if len(loop.busyRunnable()) == 0 {
			break
		}
	}
	if v := loop.onStep(); v != nil {
		return v, nil
	}
	v := x.checkObligations()
	// only now let everything run freely so that the bubble can end
	release()
	inc.cancel()
	inc.sub.Close()
	inc.bus.Close()
	x.s.Settle()
	return v, nil
}
