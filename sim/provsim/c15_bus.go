package provsim

import (
	"fmt"
	"sort"
	"time"

	"github.com/ovrclk/akash/pubsub"

	"verifsim/core"
)

// ------------------------------------------------------------------ C15, Layer 1: operation-by-operation
// conformance of the real bus with a per-subscriber queue model.

type mSub struct {
	id     int
	sub    pubsub.Subscriber
	queue  []int
	parent *mSub
	kids   []*mSub
	closed bool
	reads  int
}

type c15 struct {
	r    *core.Run
	bus  pubsub.Bus
	subs []*mSub
	next int
	ev   int
	open bool
}

// inBubble runs f on its own goroutine and reports whether it returned by the next quiescent point.
func returnsPromptly(f func()) bool {
	done := make(chan struct{})
	go func() { f(); close(done) }()
	time.Sleep(time.Millisecond) // lets everything settle; virtual time
	synctestWait()
	return isDone(done)
}

func (x *c15) live() []*mSub {
	var out []*mSub
	for _, s := range x.subs {
		if !s.closed {
			out = append(out, s)
		}
	}
	return out
}

func (x *c15) closeModel(s *mSub) {
	s.closed = true
	for _, k := range s.kids {
		if !k.closed {
			x.closeModel(k)
		}
	}
}

func (x *c15) state() string {
	var parts []string
	for _, s := range x.live() {
		parts = append(parts, fmt.Sprintf("%d:%d", s.id, len(s.queue)))
	}
	sort.Strings(parts)
	return fmt.Sprint(parts)
}

func runC15(r *core.Run) *core.Violation {
	x := &c15{r: r, bus: pubsub.NewBus(), open: true}
	n := 10 + r.Choose(40, "knob.ops")
	// long-backlog runs: bursts of publishes against slow readers (backlogs of 16, 32, 64 ... events)
	burst := r.Bool(25, "knob.bursts")
	if burst {
		n += 20 + r.Choose(40, "knob.ops.more")
	}
	defer func() {
		// leave the bubble clean
		x.bus.Close()
		synctestWait()
	}()
	for i := 0; i < n && x.open; i++ {
		r.Mark()
		if r.Switch("skip.op") {
			continue
		}
		r.Step++
		r.Ops++
		live := x.live()
		w := []int{10, 4, 3, 12, 3, 1, 0}
		if burst {
			w[6], w[4], w[5] = 6, 1, 0
			if len(live) == 0 {
				w[1] = 12
			}
		}
		if len(live) == 0 {
			w[2], w[3], w[4] = 0, 0, 0
		}
		op := r.Weighted(w, "op")
		pubs := 1
		if op == 6 {
			op, pubs = 0, 4+r.Choose(30, "burst.n")
		}
		switch op {
		case 0: // publish a unique event (or a burst of them)
			for k := 0; k < pubs; k++ {
				x.ev++
				ev := x.ev
				var err error
				if !returnsPromptly(func() { err = x.bus.Publish(ev) }) {
					return r.Flag("C15/publish-blocked", "Publish(%d) did not return; subscribers: %s", ev, x.state())
				}
				if err != nil {
					return r.Flag("C15/publish-failed", "Publish(%d) on an open bus failed: %v", ev, err)
				}
				for _, s := range live {
					s.queue = append(s.queue, ev)
					if len(s.queue) == 17 && s.reads > 0 {
						r.Count("probe:backlog-past-16-after-partial-read")
					}
				}
			}
			r.Mutating++
			if pubs > 1 {
				r.Logf("publish %d..%d (burst of %d)", x.ev-pubs+1, x.ev, pubs)
			} else {
				r.Logf("publish %d", x.ev)
			}
			r.Abstract("publish|" + x.state())
		case 1: // subscribe
			var sub pubsub.Subscriber
			var err error
			if !returnsPromptly(func() { sub, err = x.bus.Subscribe() }) {
				return r.Flag("C15/subscribe-blocked", "Subscribe did not return")
			}
			if err != nil {
				return r.Flag("C15/subscribe-failed", "Subscribe on an open bus failed: %v", err)
			}
			x.next++
			x.subs = append(x.subs, &mSub{id: x.next, sub: sub})
			r.Logf("subscribe -> s%d", x.next)
			r.Abstract("subscribe|" + x.state())
		case 2: // clone
			p := live[r.Choose(len(live), "clone.of")]
			var sub pubsub.Subscriber
			var err error
			if !returnsPromptly(func() { sub, err = p.sub.Clone() }) {
				return r.Flag("C15/clone-blocked", "Clone of s%d did not return", p.id)
			}
			if err != nil {
				return r.Flag("C15/clone-failed", "Clone of live subscriber s%d failed: %v", p.id, err)
			}
			x.next++
			c := &mSub{id: x.next, sub: sub, parent: p, queue: append([]int{}, p.queue...)}
			p.kids = append(p.kids, c)
			x.subs = append(x.subs, c)
			if len(p.queue) > 0 {
				r.Count("probe:clone-with-undelivered-events")
			}
			if p.reads > 0 && len(p.queue) > 0 {
				r.Count("probe:clone-after-partial-read")
			}
			r.Logf("clone s%d -> s%d (inherits %v)", p.id, c.id, c.queue)
			r.Abstract("clone|" + x.state())
		case 3: // read one event (or verify that nothing is there)
			s := live[r.Choose(len(live), "read.from")]
			synctestWait()
			select {
			case got := <-s.sub.Events():
				if len(s.queue) == 0 {
					return r.Flag("C15/unexpected-event", "s%d delivered %v although every event published since its subscription was already delivered", s.id, got)
				}
				want := s.queue[0]
				if got != want {
					cls := "C15/out-of-order-or-lost"
					for _, q := range s.queue {
						if q == got {
							cls = "C15/out-of-order-or-lost"
						}
					}
					return r.Flag(cls, "s%d delivered %v, next undelivered event is %d (pending %v)", s.id, got, want, s.queue)
				}
				s.queue = s.queue[1:]
				s.reads++
				r.Logf("read s%d -> %d", s.id, want)
			default:
				if len(s.queue) > 0 {
					return r.Flag("C15/event-not-delivered", "s%d has nothing to deliver but %v were published after its subscription and never handed out", s.id, s.queue)
				}
				r.Count("probe:read-on-empty")
				r.Logf("read s%d -> (nothing, as expected)", s.id)
			}
			if len(live) > 1 {
				for _, o := range live {
					if o != s && len(o.queue) >= 5 {
						r.Count("probe:read-while-other-subscriber-stalled")
						break
					}
				}
			}
			r.Abstract("read|" + x.state())
		case 4: // close a subscriber (closes its clones too)
			s := live[r.Choose(len(live), "close.which")]
			if !returnsPromptly(func() { s.sub.Close() }) {
				return r.Flag("C15/close-blocked", "Close of s%d did not return", s.id)
			}
			if len(s.queue) > 0 {
				r.Count("probe:close-with-undelivered-events")
			}
			if len(s.kids) > 0 {
				r.Count("probe:close-subscriber-with-clones")
			}
			x.closeModel(s)
			if !isDone(s.sub.Done()) {
				return r.Flag("C15/close-incomplete", "s%d closed but Done() is not signalled", s.id)
			}
			r.Mutating++
			r.Logf("close s%d", s.id)
			r.Abstract("close|" + x.state())
		case 5: // close the bus
			if !returnsPromptly(func() { x.bus.Close() }) {
				return r.Flag("C15/bus-close-blocked", "Close of the bus did not return; subscribers: %s", x.state())
			}
			x.open = false
			r.Count("probe:bus-closed")
			var err error
			if !returnsPromptly(func() { err = x.bus.Publish(-1) }) {
				return r.Flag("C15/publish-after-close-blocked", "Publish on a closed bus blocks")
			}
			if err == nil {
				return r.Flag("C15/publish-after-close-accepted", "Publish on a closed bus reported success")
			}
			for _, s := range live {
				if !isDone(s.sub.Done()) {
					return r.Flag("C15/bus-close-incomplete", "bus closed but subscriber s%d is still running", s.id)
				}
			}
			r.Logf("close bus")
			r.Abstract("closebus")
		}
	}
	return nil
}
