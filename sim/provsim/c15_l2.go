package provsim

import (
	"fmt"
	"sort"
	"strings"
	"sync/atomic"
	"time"

	"github.com/anishathalye/porcupine"

	"github.com/ovrclk/akash/pubsub"

	"verifsim/core"
	"verifsim/simrt"
)

// ------------------------------------------------------------------ C15, Layer 2: concurrent tasks on the
// instrumented bus; every channel operation inside bus.go / lifecycle.go is a scheduling point.

type busOp struct {
	Kind string // publish | subscribe | clone | read | close | closebus
	Sub  int    // subscriber handle (model id) the op addresses
	Val  int    // published value
}

type busOut struct {
	Val int  // value read
	New int  // handle returned by subscribe/clone
	Err bool // operation reported an error
}

type histOp struct {
	client   int
	in       busOp
	out      busOut
	call     int64
	ret      int64
	returned bool
}

type c15l2 struct {
	r     *core.Run
	bus   pubsub.Bus
	subs  map[int]pubsub.Subscriber
	nsub  int
	hist  []*histOp
	tasks int
	done  int
}

func (x *c15l2) begin(client int, in busOp) *histOp {
	h := &histOp{client: client, in: in, call: tick()}
	x.hist = append(x.hist, h)
	return h
}

func (x *c15l2) end(h *histOp, out busOut) {
	h.out = out
	h.ret = tick()
	h.returned = true
}

// model state for porcupine: live subscribers with their undelivered queues, parent links
type busState struct {
	queues  map[int][]int
	parent  map[int]int
	busOpen bool
}

func (s busState) key() string {
	ids := make([]int, 0, len(s.queues))
	for id := range s.queues {
		ids = append(ids, id)
	}
	sort.Ints(ids)
	var b strings.Builder
	fmt.Fprintf(&b, "%v|", s.busOpen)
	for _, id := range ids {
		fmt.Fprintf(&b, "%d<%d:%v;", id, s.parent[id], s.queues[id])
	}
	return b.String()
}

func (s busState) clone() busState {
	n := busState{queues: map[int][]int{}, parent: map[int]int{}, busOpen: s.busOpen}
	for k, v := range s.queues {
		n.queues[k] = append([]int{}, v...)
	}
	for k, v := range s.parent {
		n.parent[k] = v
	}
	return n
}

func (s busState) closeSub(id int) {
	delete(s.queues, id)
	for k, p := range s.parent {
		if p == id {
			if _, live := s.queues[k]; live {
				s.closeSub(k)
			}
		}
	}
}

var busModel = porcupine.Model{
	Init: func() interface{} { return busState{queues: map[int][]int{}, parent: map[int]int{}, busOpen: true} },
	Step: func(st interface{}, in interface{}, out interface{}) (bool, interface{}) {
		s := st.(busState).clone()
		i, o := in.(busOp), out.(busOut)
		switch i.Kind {
		case "publish":
			if !s.busOpen {
				return o.Err, s
			}
			if o.Err {
				return false, s
			}
			for id := range s.queues {
				s.queues[id] = append(s.queues[id], i.Val)
			}
			return true, s
		case "subscribe":
			if !s.busOpen {
				return o.Err, s
			}
			if o.Err {
				return false, s
			}
			s.queues[o.New] = []int{}
			s.parent[o.New] = 0
			return true, s
		case "clone":
			q, live := s.queues[i.Sub]
			if !live {
				return o.Err, s
			}
			if o.Err {
				// once the bus is closing its subscribers shut down one by one (before Close returns):
				// a clone may already be refused; on an open bus a live subscriber must be clonable
				return !s.busOpen, s
			}
			s.queues[o.New] = append([]int{}, q...)
			s.parent[o.New] = i.Sub
			return true, s
		case "read":
			q, live := s.queues[i.Sub]
			if !live || len(q) == 0 || q[0] != o.Val {
				return false, s
			}
			s.queues[i.Sub] = q[1:]
			return true, s
		case "close":
			if _, live := s.queues[i.Sub]; live {
				s.closeSub(i.Sub)
			}
			return true, s
		case "closebus":
			// no more publishes or subscriptions; the subscribers wind down individually until Close
			// returns (what they had buffered may still be read, clones of them may still succeed)
			s.busOpen = false
			return true, s
		}
		return false, s
	},
	Equal: func(a, b interface{}) bool { return a.(busState).key() == b.(busState).key() },
	DescribeOperation: func(in interface{}, out interface{}) string {
		i, o := in.(busOp), out.(busOut)
		return fmt.Sprintf("%s(sub=%d val=%d) -> val=%d new=%d err=%v", i.Kind, i.Sub, i.Val, o.Val, o.New, o.Err)
	},
}

func runC15L2(r *core.Run) (*core.Violation, func() *core.Violation) {
	if r.Bool(25, "knob.chain-feed") {
		return runC15Feed(r)
	}
	x := &c15l2{r: r, subs: map[int]pubsub.Subscriber{}}
	s := NewSched(r)
	atomic.StoreInt64(&eventSeq, 0)
	simrt.Enable(r)
	released := false
	release := func() {
		if !released {
			released = true
			simrt.ReleaseAll()
		}
	}
	defer func() {
		release()
		if x.bus != nil {
			x.bus.Close()
		}
		s.Settle()
	}()
	// the bus itself is created by a task, like everything else, so that its goroutines are simulated
	nPub := 1 + r.Choose(2, "knob.publishers")
	nEvents := 1 + r.Choose(3, "knob.events")
	nReaders := 1 + r.Choose(2, "knob.readers")
	withCloner := r.Bool(60, "knob.cloner")
	withCloser := r.Bool(50, "knob.closer")
	closeBus := r.Bool(35, "knob.closebus")
	secondCloser := r.Bool(50, "knob.closer2")
	r.Logf("L2 knobs: publishers=%d events=%d readers=%d cloner=%v closer=%v closebus=%v", nPub, nEvents, nReaders, withCloner, withCloser, closeBus)
	ready := make(chan struct{})
	client := 0
	task := func(name string, f func(c int)) {
		c := client
		client++
		x.tasks++
		simrt.Go(name, func() {
			<-ready
			f(c)
			x.done++
		})
	}
	x.bus = pubsub.NewBus()
	subscribe := func(c int) (int, pubsub.Subscriber) {
		h := x.begin(c, busOp{Kind: "subscribe"})
		sub, err := x.bus.Subscribe()
		if err != nil {
			x.end(h, busOut{Err: true})
			return 0, nil
		}
		x.nsub++
		id := x.nsub
		x.subs[id] = sub
		x.end(h, busOut{New: id})
		return id, sub
	}
	quit := make(chan struct{})
	defer close(quit)
	read := func(c, id int, sub pubsub.Subscriber) bool {
		h := x.begin(c, busOp{Kind: "read", Sub: id})
		sel := simrt.NewSelect("task.read")
		got := simrt.SelRecv(sel, sub.Events())
		simrt.SelRecv(sel, (<-chan struct{})(quit))
		if sel.Run() != 0 {
			return false // the run is over: this read never got a value
		}
		x.end(h, busOut{Val: got.Val.(int)})
		return true
	}
	for p := 0; p < nPub; p++ {
		p := p
		task(fmt.Sprintf("pub%d", p), func(c int) {
			for i := 0; i < nEvents; i++ {
				v := (p+1)*100 + i
				h := x.begin(c, busOp{Kind: "publish", Val: v})
				err := x.bus.Publish(v)
				x.end(h, busOut{Err: err != nil})
			}
		})
	}
	nReads := nPub * nEvents
	for rd := 0; rd < nReaders; rd++ {
		stall := r.Bool(30, "knob.reader-stalls")
		reads := r.Choose(nReads+1, "knob.reader-reads")
		closes := withCloser && (rd == 0 || secondCloser)
		task(fmt.Sprintf("reader%d", rd), func(c int) {
			id, sub := subscribe(c)
			if sub == nil {
				return
			}
			if stall {
				return // subscribed, never reads: must not hold anybody up
			}
			for i := 0; i < reads; i++ {
				if !read(c, id, sub) {
					return
				}
			}
			if closes {
				h := x.begin(c, busOp{Kind: "close", Sub: id})
				sub.Close()
				x.end(h, busOut{})
			}
		})
	}
	if withCloner {
		before := r.Choose(nReads+1, "knob.cloner-reads-before")
		after := r.Choose(nReads+1, "knob.cloner-reads-after")
		task("cloner", func(c int) {
			id, sub := subscribe(c)
			if sub == nil {
				return
			}
			for i := 0; i < before; i++ {
				if !read(c, id, sub) {
					return
				}
			}
			h := x.begin(c, busOp{Kind: "clone", Sub: id})
			cl, err := sub.Clone()
			if err != nil {
				x.end(h, busOut{Err: true})
				return
			}
			x.nsub++
			cid := x.nsub
			x.subs[cid] = cl
			x.end(h, busOut{New: cid})
			for i := 0; i < after; i++ {
				if !read(c, cid, cl) {
					return
				}
			}
		})
	}
	if closeBus {
		task("buscloser", func(c int) {
			simrt.Yield("task.closebus")
			h := x.begin(c, busOp{Kind: "closebus"})
			x.bus.Close()
			x.end(h, busOut{})
		})
	}
	close(ready)
	loop := &l2Loop{r: r, s: s}
	maxSteps := 150 + r.Choose(250, "knob.l2steps")
	allDone := func() bool { return x.done == x.tasks }
	if v := loop.run(maxSteps, allDone); v != nil {
		return v, nil
	}
	// fair drain: publishers, closers and cloners must get through; readers may legitimately wait
	loop.drain(400, allDone)
	s.Settle()
	r.Ops += len(x.hist)
	r.Mutating++
	r.SimTime += int64(loop.steps)
	for _, h := range x.hist {
		if !h.returned && h.in.Kind != "read" {
			blockedOn := ""
			for _, g := range simrt.Runnable() {
				blockedOn += g.String() + " "
			}
			return r.Flag("C15/l2-operation-blocked", "%s by client %d never returned although every goroutine was scheduled fairly for 400 rounds (runnable: %s)", h.in.Kind, h.client, blockedOn), nil
		}
	}
	// a bus whose Close returned has stopped every subscriber; a subscriber whose Close returned is stopped
	busClosed := false
	closedSubs := map[int]bool{}
	for _, h := range x.hist {
		if h.returned && h.in.Kind == "closebus" {
			busClosed = true
		}
		if h.returned && h.in.Kind == "close" {
			closedSubs[h.in.Sub] = true
		}
	}
	stopped := func() (int, bool) {
		for id := 1; id <= x.nsub; id++ {
			if sub := x.subs[id]; sub != nil && (busClosed || closedSubs[id]) && !isDone(sub.Done()) {
				return id, false
			}
		}
		return 0, true
	}
	loop.drain(200, func() bool { _, ok := stopped(); return ok })
	s.Settle()
	if id, ok := stopped(); !ok {
		what := "its own Close returned"
		if busClosed {
			what = "the bus was closed (Close returned)"
		}
		return r.Flag("C15/l2-subscriber-left-running", "subscriber %d is still running (Done not signalled) although %s and every goroutine was scheduled fairly", id, what), nil
	}
	// hand the recorded history to the linearizability checker (outside the bubble)
	var ops []porcupine.Operation
	desc := []string{}
	for _, h := range x.hist {
		if !h.returned {
			continue // a read that never got a value took nothing
		}
		ops = append(ops, porcupine.Operation{ClientId: h.client, Input: h.in, Output: h.out, Call: h.call, Return: h.ret})
		desc = append(desc, fmt.Sprintf("[%d,%d] c%d %s", h.call, h.ret, h.client, busModel.DescribeOperation(h.in, h.out)))
	}
	for _, d := range desc {
		r.Logf("  %s", d)
	}
	for _, h := range x.hist {
		if h.returned {
			r.Abstract(fmt.Sprintf("c%d %s", h.client, busModel.DescribeOperation(h.in, h.out)))
		}
	}
	r.Count("probe:l2-histories")
	if withCloner {
		r.Count("probe:l2-history-with-clone")
	}
	post := func() *core.Violation {
		res := porcupine.CheckOperationsTimeout(busModel, ops, 20*time.Second)
		switch res {
		case porcupine.Illegal:
			return r.Flag("C15/l2-not-linearizable", "recorded history of %d operations is not linearizable with respect to the per-subscriber queue model:\n%s", len(ops), strings.Join(desc, "\n"))
		case porcupine.Unknown:
			r.Count("l2:linearizability-check-timed-out")
		}
		return nil
	}
	return nil, post
}
