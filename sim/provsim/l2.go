package provsim

import (
	"os"
	"sync/atomic"
	"time"

	"verifsim/core"
	"verifsim/simrt"
)

// Layer 2: goroutine-level scheduling.  The binary must have been built with the yieldgen overlay
// (./check does that and sets VERIF_LAYER2=1); then every channel operation, select and go statement
// of the provider's actor files is a scheduling point owned by the choice stream.

func layer2Available() bool { return os.Getenv("VERIF_LAYER2") == "1" }

type l2Stim struct {
	name string
	w    int
	f    func()
}

// l2Loop is the goroutine-level scheduler: at every quiescent point it resumes exactly one parked
// goroutine, or completes/fails one parked outside call, or applies one extra stimulus.
type l2Loop struct {
	r        *core.Run
	s        *Sched
	faults   int
	failable func(c *Call) bool
	extra    func() []l2Stim
	onStep   func() *core.Violation
	weight   func(c *Call) int // weight of completing a parked call (default 6)
	steps    int
	// idle: a harness task that is parked with nothing to do (an injector with an empty queue); it does
	// not count as "something can still move" when the scenario waits for quiescence
	idle      func(g *simrt.G) bool
	idleSteps bool
}

// runnableForStep: what a scheduling step may resume.  With idleSteps (a per-run knob) resuming an idle
// harness task counts as a step too: real goroutines are then scheduled sparsely, work piles up in
// channels and is later handled in bursts - schedules a dense scheduler hardly produces.
func (l *l2Loop) runnableForStep() []*simrt.G {
	if l.idleSteps {
		return simrt.Runnable()
	}
	return l.busyRunnable()
}

// busyRunnable: the runnable goroutines that are not idle harness tasks.
func (l *l2Loop) busyRunnable() []*simrt.G {
	var out []*simrt.G
	for _, g := range simrt.Runnable() {
		if l.idle == nil || !l.idle(g) {
			out = append(out, g)
		}
	}
	return out
}

var eventSeq int64

// tick returns the next global event sequence number (invoke/return stamps of recorded histories).
func tick() int64 { return atomic.AddInt64(&eventSeq, 1) }

func (l *l2Loop) run(maxSteps int, done func() bool) *core.Violation {
	r := l.r
	for l.steps = 0; l.steps < maxSteps; l.steps++ {
		l.s.Settle()
		if done != nil && done() {
			return nil
		}
		r.Mark()
		l.s.Tick()
		var st []l2Stim
		for _, g := range l.runnableForStep() {
			g := g
			st = append(st, l2Stim{"run " + g.Name, 10, func() {
				if l.r.KeepLog {
					l.r.Logf("    step %d: run %s", l.s.Step, g)
				}
				simrt.Resume(g)
			}})
		}
		for _, c := range l.s.Pending() {
			c := c
			w := 6
			if l.weight != nil {
				w = l.weight(c)
			}
			st = append(st, l2Stim{"ok " + c.Key, w, func() {
				l.s.Complete(c, nil)
				r.Logf("step %d: %s -> ok", l.s.Step, c.Key)
			}})
			if l.faults > 0 && (l.failable == nil || l.failable(c)) {
				st = append(st, l2Stim{"fail " + c.Key, 2, func() {
					l.faults--
					l.s.Complete(c, ErrInjected)
					r.Count("fault:l2-fail-" + c.Method)
					r.Logf("step %d: %s -> FAULT error", l.s.Step, c.Key)
				}})
			}
		}
		if l.extra != nil {
			st = append(st, l.extra()...)
		}
		if len(st) == 0 {
			// nothing can move: only timers could; let virtual time pass once, then give up
			time.Sleep(time.Minute)
			l.s.Settle()
			if len(l.busyRunnable()) == 0 && len(l.s.Pending()) == 0 {
				return nil
			}
			continue
		}
		ws := make([]int, len(st))
		for i := range st {
			ws[i] = st[i].w
		}
		st[r.Weighted(ws, "l2")].f()
		r.Count("l2:decisions")
		if l.onStep != nil {
			l.s.Settle()
			if v := l.onStep(); v != nil {
				return v
			}
		}
	}
	return nil
}

// drain: fair completion after the exploration phase - every runnable goroutine is resumed in turn,
// every parked call completes successfully, virtual time advances when nothing else can move.
func (l *l2Loop) drain(rounds int, done func() bool) {
	for i := 0; i < rounds; i++ {
		l.s.Settle()
		if done() {
			return
		}
		moved := false
		for _, g := range simrt.Runnable() {
			if l.r.KeepLog {
				l.r.Logf("    drain: run %s", g)
			}
			simrt.Resume(g)
			l.s.Settle()
			moved = true
		}
		for _, c := range l.s.Pending() {
			if l.r.KeepLog {
				l.r.Logf("    drain: complete %s", c.Key)
			}
			l.s.Complete(c, nil)
			l.s.Settle() // one woken goroutine at a time: two running at once would race for the choice stream
			moved = true
		}
		if !moved {
			time.Sleep(5 * time.Second)
		}
	}
}

// drainNoComplete resumes runnable goroutines in turn (no parked call is completed, no time passes)
// until nothing is runnable: everything delivered so far has then been consumed.
func (l *l2Loop) drainNoComplete(rounds int) {
	for i := 0; i < rounds; i++ {
		l.s.Settle()
		rs := l.busyRunnable()
		if len(rs) == 0 {
			return
		}
		for _, g := range rs {
			if l.r.KeepLog {
				l.r.Logf("    sync-drain: run %s", g)
			}
			simrt.Resume(g)
			l.s.Settle()
		}
	}
}
