// Package evparse turns an ABCI event into the typed marketplace event the provider works with, using
// only exported functions of the repository: sdkutil.ParseEvent and the modules' ParseEvent, tried in
// the order the provider's feed (events/publish.go) tries them.  The feed's own glue is exercised by
// the C15 chain-feed scenario, which drives the exported events.Publish; nothing here (and no build
// overlay) depends on unexported names of the events package.
package evparse

import (
	sdk "github.com/cosmos/cosmos-sdk/types"
	abci "github.com/tendermint/tendermint/abci/types"

	"github.com/ovrclk/akash/sdkutil"
	atypes "github.com/ovrclk/akash/x/audit/types"
	dtypes "github.com/ovrclk/akash/x/deployment/types"
	mtypes "github.com/ovrclk/akash/x/market/types"
	ptypes "github.com/ovrclk/akash/x/provider/types"
)

func Process(bev abci.Event) (interface{}, bool) {
	ev, err := sdkutil.ParseEvent(sdk.StringifyEvent(bev))
	if err != nil {
		return nil, false
	}
	if mev, err := dtypes.ParseEvent(ev); err == nil {
		return mev, true
	}
	if mev, err := mtypes.ParseEvent(ev); err == nil {
		return mev, true
	}
	if mev, err := ptypes.ParseEvent(ev); err == nil {
		return mev, true
	}
	if mev, err := atypes.ParseEvent(ev); err == nil {
		return mev, true
	}
	return nil, false
}
