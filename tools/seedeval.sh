#!/bin/bash
# usage: tools/seedeval.sh <ID> <variant> [checks...]
# 1. confirms a seeded change in its scratch worktree /tmp/wt/<ID>: builds, the demo fails with the
#    change and passes without, the touched packages' existing tests pass with the change;
# 2. applies it to /repo, runs the given checks (default: the property's own) quick, undoes it.
# Writes /tmp/seeded/<ID>/<variant>/RESULT.txt
ID=$1; V=$2; shift 2
D=/tmp/seeded/$ID/$V
WT=/tmp/wt/$ID
[ -d "$WT" ] || git -C /repo worktree add -q "$WT" HEAD
export GOFLAGS=-mod=mod GOPROXY=off GOSUMDB=off
R=$D/RESULT.txt
# PHASE=1: confirmation only (safe to run for several properties in parallel, each has its own worktree);
# PHASE=2: only the checks against /repo (strictly serial: the change is applied to /repo itself)
if [ "${PHASE:-}" = 2 ]; then sed -i '/^check /d' $R; else : > $R; fi
if [ "${PHASE:-}" != 2 ]; then
demo=$(ls $D/*_test.go 2>/dev/null | head -1)
[ -z "$demo" ] && { echo "NO-DEMO" >> $R; }
name=$(basename "$demo" 2>/dev/null)
path=$(grep -ho "[A-Za-z0-9_/.-]*/$name" $D/NOTES.md 2>/dev/null | grep -v "^/tmp" | head -1)
[ -z "$path" ] && path=$(grep -ho "[A-Za-z0-9_/.-]*/$name" $D/*.md /tmp/seeded/$ID/*.md 2>/dev/null | grep -v "^/tmp" | head -1)
echo "demo=$name path=$path" >> $R
( cd $WT && git checkout -q -- . && git clean -fdq && git checkout -q --detach $(git -C /repo rev-parse HEAD) ) >> $R 2>&1
if [ -n "$path" ]; then
  pkg=./$(dirname "$path")
  cp "$demo" "$WT/$path"
  ( cd $WT && go test -count=1 $pkg -run 'Seeded|seeded|Zz|ZZ' 2>&1 | tail -3 ) > $D/demo_without.log 2>&1
  grep -q "^ok" $D/demo_without.log && echo "demo-without-change: PASS" >> $R || echo "demo-without-change: NOT-PASS" >> $R
  ( cd $WT && git apply $D/patch.diff ) >> $R 2>&1 || echo "PATCH-DOES-NOT-APPLY" >> $R
  ( cd $WT && go build ./... ) >> $R 2>&1 && echo "build-with-change: OK" >> $R || echo "build-with-change: FAIL" >> $R
  ( cd $WT && go test -count=1 $pkg -run 'Seeded|seeded|Zz|ZZ' 2>&1 | tail -5 ) > $D/demo_with.log 2>&1
  grep -q "^FAIL\|--- FAIL\|panic" $D/demo_with.log && echo "demo-with-change: FAILS (as required)" >> $R || echo "demo-with-change: DOES-NOT-FAIL" >> $R
  rm -f "$WT/$path"
  pkgs=$(cd $WT && git diff --name-only | xargs -n1 dirname | sort -u | sed 's#^#./#' | tr '\n' ' ')
  ( cd $WT && go test -count=1 $pkgs 2>&1 | grep -v "no test files" | tail -6 ) > $D/existing_with.log 2>&1
  grep -q "^FAIL\|--- FAIL" $D/existing_with.log && echo "existing-tests-of-touched-packages: FAIL" >> $R || echo "existing-tests-of-touched-packages ($pkgs): PASS" >> $R
  ( cd $WT && git checkout -q -- . && git clean -fdq )
fi
fi
[ "${PHASE:-}" = 1 ] && { cat $R; exit 0; }
# run the checks against /repo with the change applied
cd /verif
git -C /repo apply $D/patch.diff || { echo "PATCH-DOES-NOT-APPLY-TO-REPO" >> $R; exit 0; }
for c in ${@:-$ID}; do
  out=$(VERIF_MINIMISE_S=${VERIF_MINIMISE_S:-4} timeout 1500 ./check $c ${TIER:-quick} -noevidence 2>&1)
  rc=$?
  cls=$(echo "$out" | grep -o "class=[^ ]*" | sort -u | tr '\n' ' ')
  echo "check $c ${TIER:-quick}: exit=$rc $cls" >> $R
done
git -C /repo apply -R $D/patch.diff 2>/dev/null || git -C /repo checkout -- .
git -C /repo checkout -- .
# a patch may add files: nothing untracked may stay behind in /repo
for f in $(git -C /repo status --short | grep "^??" | awk '{print $2}'); do echo "removing leftover /repo/$f" >> $R; rm -rf "/repo/$f"; done
git -C /repo status --short >> $R
cat $R
