#!/bin/bash
# Runs tools/refeval.sh over the twenty behaviour-preserving restructurings in /tmp/refactor (see DESIGN.md §11):
# for each one the checks whose code it touches; expected result is exit 0 everywhere.
T=$(dirname "$0")
: > /tmp/refactor/RESULTS.txt
for v in r1 r2; do
  $T/refeval.sh escrow $v C01 C02 C03 C05
  $T/refeval.sh market $v C04 C05 C06 C08 C16
  $T/refeval.sh deployment $v C04 C19 C16 C08
  $T/refeval.sh certaudit $v C17 C08 C07
  $T/refeval.sh bidengine $v C13 C13:t
  $T/refeval.sh manifest $v C20 C10 C20:t
  $T/refeval.sh gateway $v C09
  $T/refeval.sh kube $v C11
done
$T/refeval.sh cluster r1 C14 C14:t
$T/refeval.sh cluster r2 C12 C14 C14:t
$T/refeval.sh pubsubevents r1 C15 C15:t
$T/refeval.sh pubsubevents r2 C15 C16 C15:t
echo ALL-DONE >> /tmp/refactor/RESULTS.txt
