#!/usr/bin/env python3
"""Writes /verif/MANIFEST.json from the table below (kept as a script so the file stays consistent)."""
import json, os

ROOT = os.path.dirname(os.path.dirname(os.path.abspath(__file__)))

LEVEL_NOTE_CHAIN = ("Trusted base: Cosmos-SDK baseapp/bank/auth/store and Go runtime as shipped; Tendermint consensus is absent "
                    "(the simulator is the proposer); fees are zero; sampling only - a clean batch is evidence, not proof.")

checks = {
 "C01": ("chainsim", "seeded simulation of full-application tx histories with faults; per-tx conservation + independent ledger oracle",
         "Real AkashApp (real bank) driven through ABCI by a seeded proposer; after every tx, restart and export: module balance == sum of recorded balances, every actor's bank delta == what deposits/refunds/payouts imply (depositor and payee known from the messages, not from escrow records), rejected txs have no effect. Exploration: right level because the quantifier is over histories x height gaps x parties with aborts/crashes, which only sampling of the real code reaches."),
 "C02": ("chainsim", "seeded simulation; independent big-integer metering model (rate x blocks, overdraft shares) checked after every tx",
         "Same histories biased to several concurrent leases with unequal rates and many settle triggers; oracle: paid == rate x blocks exactly, never more than rate x blocks-open, transferred == credited, overdraft shares within [full, full+1] blocks and sum to the balance."),
 "C03": ("chainsim", "seeded simulation biased to same-block closes; state invariants + real escrow.ValidateGenesis after every tx and on mid-history exports",
         "Invariants over all escrow records after every prefix (open payment => open account, closed => zero balance, closed records frozen, successful close takes effect, nothing open => module empty) and the chain's own ValidateGenesis on the live and exported state."),
 "C04": ("chainsim", "seeded simulation incl. overdraft at any point; full-store relational scan after every tx",
         "The statement's relations between deployments, groups, orders, bids, leases evaluated over raw store contents after every transaction of every history."),
 "C05": ("chainsim", "seeded simulation; join of market and escrow records through an independent id mapping, refunds checked against bank deltas",
         "lease active <=> payment open, bid live <=> bid account open, deployment active <=> account open after every tx; when a bid/deployment ends the bank deltas equal the unspent deposit and an account that is no longer open holds nothing; 30 % of the runs are scripted small-scope sweeps (exact exhaustion, zero gaps)."),
 "C06": ("chainsim", "seeded simulation with wrong-signer and replayed txs and colliding ids; KV write-set scoping by independent key parsers",
         "Every generated message instance requires exactly the assigned party's signature, wrong-signer/replayed txs are rejected without effect, and the changed keys of every successful tx parse (harness parsers) to objects of the deployment/bid/provider/attestation/certificate it names (group-level scope for group/order/bid/lease messages, provider-level scope for provider actions, no effect through an ended bid, one certificate per revocation); only the signer's balance decreases."),
 "C07": ("chainsim", "seeded simulation on 2-4 in-process replicas + re-execution of the recorded history in a fresh OS process, from genesis or from a disk dump, under the real or a skewed simulated wall clock; byte comparison of results and app hashes",
         "Every block goes to 2-3 independent app instances (results and app hashes compared byte for byte); crash/restart of one replica must converge; a share of runs re-executes the history in a child process (from genesis or from a mid-history dump of the node's disk; in 8 of 10 cases inside a synctest bubble whose wall clock is set to 2003..2095) and compares every tx result digest and app hash. The property quantifies over repetitions of an execution: a replay of a C07 counterexample repeats the identical choice list up to 12 times."),
 "C08": ("chainsim", "seeded simulation with changing attestations/provider records; independent set-based admission predicate over a history model of attestations and declarations",
         "accepted bid => predicate of the statement holds, where what auditors attested and providers declared is kept by the harness from the successful transactions alone (not read back from the stores), the order maximum is the harness's own sum and accounts are compared decoded; successful provider update => new attributes cover the requirements of each active lease."),
 "C16": ("chainsim", "seeded simulation; expected event multiset derived from the state diff, every emitted event decoded through the modules' exported event parsers",
         "For every successful tx the typed events decoded by the exported module parsers (the ones events.processEvent dispatches to) must re-encode to what was emitted and must equal the multiset the state change demands (no missing, repeated or spurious created/closed/paused/started events), including changes made indirectly by escrow hooks."),
 "C17": ("chainsim", "seeded simulation of create/revoke histories with extreme serials; map model + real gRPC listing queries with all filters and paging modes",
         "Certificate store equals the history model after every tx (unique per owner+serial, only valid->revoked, never removed); every listing (filters x page sizes x key/offset paging) returns without error or panic exactly the model's answer."),
 "C19": ("chainsim", "seeded simulation with create-deployment messages at and beyond every bound, gas aborts and governance changes of the minimum deposit; independent big-integer predicate + stored-state scan",
         "accepted => within every limit of the limits table; rejected => no effect; every stored deployment satisfies the limits after every tx."),
 "C13": ("provsim", "seeded actor-level (Layer 1) and goroutine-level (Layer 2, generated scheduling points) scheduling of the real bid engine against parked chain/cluster/pricing calls with event, failure, clock and crash faults; call-log oracle",
         "Real bidengine service + order monitors + real bus; every outside call parks until the seeded scheduler completes or fails it, chain events are delivered/lost at every pipeline point, clock jumps fire the bid timeout, the provider crashes and restarts (catch-up with and without an existing bid). Oracle over the call log: <=1 create-bid per order and incarnation, price <= max, reservation completed before the bid, and after handling ended without LeaseWon every granted reservation is followed by Unreserve and every placed bid by a close-bid; no create-bid while the provider's bid is on chain, whichever incarnation sent it. Every second run is Layer 2: the instrumented actor files park at every go statement, channel operation and select, and the choice stream decides which goroutine proceeds."),
 "C15": ("provsim", "seeded operation histories on the real bus (Layer 1: queue-model conformance; Layer 2: concurrent tasks under a goroutine-level seeded scheduler, recorded history checked for linearizability with porcupine; chain-feed scenario for events/publish.go)",
         "publish/subscribe/clone/read/close histories on the real pubsub bus (real go-lifecycle), compared with a queue model: every subscriber gets every event published after its subscription exactly once in order, a clone inherits exactly the undelivered events, stalled readers and closes never block publishers or others. Layer 1: histories are sequential at the API, with publish bursts against slow readers. Layer 2 (every second run): publishers, readers, cloner, closer as concurrent tasks with every channel operation of bus.go/lifecycle.go a scheduling point; the invoke/return history is checked against the sequential model with porcupine; a quarter of these runs drive events.Publish with a stand-in node client whose subscription channels are filled with transaction and block results and demand per-stream order at every subscriber."),
 "C12": ("provsim", "seeded reserve/release/status/deployment-event/inventory-refresh histories on the real inventory service; exact bin-packing search as grant oracle, per-reservation status model",
         "Real cluster service + inventoryService with per-run commit levels and port quantity; Inventory() answers (1-4 nodes, drawn capacities, errors, slow) are completed by the scheduler. Oracle: grant => an exact backtracking search places all not-yet-deployed reservations plus the new one (scaled by the commit levels in their weakest reading) on the capacity last reported, and random-port endpoints fit the free ports; status lists exactly one entry per outstanding reservation, with the same amounts every time; release removes exactly one."),
 "C14": ("provsim", "seeded actor-level (Layer 1) and goroutine-level (Layer 2) scheduling of the real cluster service and deployment managers against parked Deploy/Teardown/Inventory/LeaseStatus calls; interval-log oracle + bounded-progress drain + release checks against the real inventory and hostname services",
         "Real cluster.NewService (service loop, inventory, hostname service, managers, monitors, withdrawal) over a real bus; manifest updates, lease-closed, completion ok/error of every parked cluster call, clock jumps. Oracle over the [start,end) log per lease: no two cluster operations overlap, no deploy starts after the lease-closed signal was delivered to a managed lease, teardown after the last deploy and then reservation and hostnames released, otherwise the last deploy uses the latest manifest - within a bounded fair drain; all hostnames any manifest version asked for are free afterwards. Every second run is Layer 2 (goroutine-level), which reaches the hostname-reservation window (DESIGN.md S7). A quarter of the histories start the service over workloads that already run (parked Deployments / active-lease answers); in Layer 2 leases close and updates arrive while the service is still starting."),
 "C20": ("provsim", "seeded actor-level (Layer 1) and goroutine-level (Layer 2) scheduling of the real manifest service against a parked deployment fetch with lease/version/close events (through the provider's event parser) and concurrent submissions; reply/announcement oracle + bounded drain",
         "Real manifest service/manager/watchdog over a real bus; LeaseWon, submissions (valid/invalid/stale, some with deadlines) from independent tasks, fetch completion ok/error/late, version updates, lease removal, deployment close, clock. Oracle: every submission is answered within the drain budget; an announcement only for a lease the provider can still believe it holds, after a successful fetch, carrying a validated manifest that is the latest one; acceptance implies announcement. In 30 % of the Layer-1 runs the hostname service answers only when the schedule says so, so that updates, closes and clock steps fall into a validation."),
 "C09": ("gwsim", "seeded connection/registration/revocation/clock histories against the real gateway TLS config and REST router over in-memory pipes inside a synctest bubble, certificates served by the real x/cert querier of a simulated chain; concurrent authenticated requests with statement-level scheduling points in the middleware (Layer 2); harness-side credential registry as oracle",
         "Real gwutils.NewServerTLSConfig + real rest router behind net/http, real crypto/tls client handshakes, cert lookups answered by the real x/cert keeper/querier of a chainsim world in which certificates are created/revoked by real transactions; genuine, forged (copied CN+serial), foreign-issuer, revoked, unknown, expired/not-yet-valid (clock jumps), wrong-usage, chained and absent credentials, resumed sessions, chain query errors/stalls, hostile paths and parameters. Oracle: accepted => presented DER is the registered, unrevoked, currently valid clientAuth certificate of that account and the query was not faulted; every back-end call is scoped to the authenticated owner and this provider - also when 2-3 authenticated requests are in flight at once and the choice stream interleaves their middleware statement by statement."),
 "C10": ("provsim", "same simulated manifest-service histories as C20; window oracle on the on-chain version plus harness-side multiset comparison; hash checks on generated manifests",
         "Accepted => the manifest's hash (harness canonical-JSON sha256) was the on-chain version at some instant between submission and reply and per-group unit multisets, counts and endpoint counts equal the on-chain groups; a manifest with equal per-group totals is never rejected by the resource comparison; re-serialisation with another key order keeps the hash, any single field change alters it. Input-dominated: the mutator samples manifests, the simulator adds the timing of version updates and fetches."),
 "C11": ("kubesim", "seeded multi-lease Deploy/redeploy/Teardown histories of the real kube client against fake clientsets with API faults at an arbitrary call; full-cluster scan and namespace-isolation diff after every operation",
         "Real provider/cluster/kube builders/apply/cleanup/Deploy/TeardownLease against client-go and akash CRD fake clientsets with a reactor that fails or loses the response of the k-th API call; after every operation every namespace/deployment/service/ingress/network policy in the tracker is checked (namespace derivation re-implemented, security context, limits == leased, requests <= limits, network policy rules parsed) and the before/after dump shows that an operation on one lease touched nothing outside its namespace. Input/configuration-dominated; multi-lease histories and API faults are the simulated part."),
}

not_applicable = [
 {"property_id": "C18", "reason": "pure function of one YAML document: no schedule, clock, fault, I/O or second party for a simulator to control (DESIGN.md section 8)"},
]
# properties whose engines are not built yet are listed here with the reason until their check exists
pending = {
}

def main():
    man = {
        "version": 1,
        "setup_cmd": "./setup.sh",
        "hooks": {
            "guard": "verif-overlay",
            "enable": "checks build /repo's working tree with `go build -overlay`: build/overlay.json adds one file exporting the kube builders to provider/cluster/kube at build time; the Layer-2 binaries (bin/provsim2.test, bin/gwsim2.test) additionally substitute generated copies of the provider's actor files in which cmd/yieldgen has inserted scheduling points (regenerated from /repo's working tree by every build, build/l2, build/gwl2). Nothing is committed to /repo for hooks; with no overlay the tree is the shipped one",
            "baseline_off_cmd": "cd /repo && go test -vet=off -count=1 -timeout 25m ./...",
            "source_commits": [],
            "add_only": True,
        },
        "engines": [
            {"name": "chainsim", "path": "sim/chainsim", "serves_properties": sorted(k for k, v in checks.items() if v[0] == "chainsim"),
             "kind_free_text": "whole AkashApp under a seeded block proposer with tx/crash/export faults"},
        ],
        "checks": [],
        "notes": "All checks: ./check <id> <tier>; exit 2 = harness/build trouble (never a verdict). Replay: ./check replay <file>. See DESIGN.md.",
        "not_applicable": not_applicable + [{"property_id": k, "reason": v} for k, v in sorted(pending.items())],
    }
    extra_engines = {}
    for pid in sorted(checks):
        eng, tech, text = checks[pid]
        man["checks"].append({
            "property_id": pid,
            "quick_cmd": f"./check {pid} quick",
            "thorough_cmd": f"./check {pid} thorough",
            "evidence_file": f"/verif/evidence/{pid}.json",
            "replay_cmd_template": "./check replay {path}",
            "engine": eng,
            "level_claimed": {"category": "exploration", "text": text, "design_ref": "DESIGN.md section 6 " + pid},
            "level_note": LEVEL_NOTE_CHAIN if eng == "chainsim" else EXTRA_NOTES.get(eng, ""),
            "technique": "deterministic simulation with fault injection: " + tech,
        })
        if eng != "chainsim":
            extra_engines.setdefault(eng, []).append(pid)
    for eng, pids in sorted(extra_engines.items()):
        man["engines"].append({"name": eng, "path": "sim/" + eng, "serves_properties": pids, "kind_free_text": ENGINE_TEXT.get(eng, "")})
    with open(os.path.join(ROOT, "MANIFEST.json"), "w") as f:
        json.dump(man, f, indent=1)
        f.write("\n")

EXTRA_NOTES = {"gwsim": "Trusted base: Go crypto/tls, crypto/x509, net/http and testing/synctest; connections are buffered in-memory pipes (no sockets); back-ends are recording stubs; certificate/path shapes are sampled; sampling only.", "kubesim": "Trusted base: client-go/akash fake clientsets (object tracker) with harness-served DeleteCollection, sorted lists and namespace garbage collection; no real API server, admission or CNI; sampling only.", "provsim": "Trusted base: Go runtime and testing/synctest (fake clock, quiescence detection); chain, cluster and pricing are scripted stubs; Layer 1 explores the order in which stimuli reach the actors; Layer 2 (instrumented copies of the actor files generated from the current tree at check time) explores interleavings at every go statement, channel operation and select; sampling only."}
ENGINE_TEXT = {"gwsim": "provider gateway (TLS client-certificate authentication + REST router) over in-memory pipes with a simulated chain behind the certificate query", "kubesim": "real provider/cluster/kube client against fake Kubernetes clientsets with seeded API faults", "provsim": "provider daemon actors (bid engine, cluster service, manifest service, event bus) in a synctest bubble under a seeded scheduler"}

if __name__ == "__main__":
    main()
