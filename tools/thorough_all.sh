#!/bin/bash
# Runs the thorough tier of every claimed check one after the other (each has its own wall budget) and
# records exit code and wall time in logs/thorough_summary.txt.  Evidence files are rewritten by the checks.
cd "$(dirname "$0")/.."
mkdir -p logs
: > logs/thorough_summary.txt
for p in ${@:-C15 C13 C14 C12 C20 C10 C11 C09 C01 C02 C03 C04 C05 C06 C07 C08 C16 C17 C19}; do
  s=$(date +%s)
  ./check $p thorough > logs/thorough_$p.log 2>&1
  rc=$?
  echo "$p rc=$rc $(( $(date +%s)-s ))s $(grep -E 'VIOLATION|KNOWN-FINDING|HARNESS|missing' logs/thorough_$p.log | head -2 | tr '\n' ' ')" >> logs/thorough_summary.txt
done
echo ALL-DONE >> logs/thorough_summary.txt
