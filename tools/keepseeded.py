#!/usr/bin/env python3
"""Copies the confirmed seeded changes from /tmp/seeded into /verif/seeded/<property>-<variant>/ (patch.diff,
the demonstration, NOTES.md of the author, meta.json) and writes the seeded part of SENSITIVITY.md.
A change is kept only when tools/seedeval.sh confirmed it: builds, the demonstration fails with the change
and passes without, the existing tests of the touched packages pass with the change."""
import glob, json, os, re, shutil, sys

SRC = "/tmp/seeded"
DST = "/verif/seeded"

SHORT = {
 "C01-a": ("settlement sums the rates of closed payments too: the account is debited for them, nobody is credited", ">=2 payments on one account, one closed while another stays open, then a settle over a non-zero gap"),
 "C01-b": ("deposit adds the amount regardless of denomination", "a deposit-deployment in a foreign denomination"),
 "C02-a": ("overdraft: the whole even-split remainder goes to the first payee", "overdraft with >=3 open payments and a remainder >=2"),
 "C02-b": ("payments iteration prefix loses its trailing '/': account owner/7 also settles payments of owner/70", "same owner, decimal-prefix-related dseq, the longer one leased, the shorter one settles"),
 "C03-a": ("zero-elapsed-blocks settle returns no payments again (AccountClose leaves payments open)", "account closed in the block of its last settlement while a payment is open"),
 "C03-b": ("payments iteration prefix loses its trailing '/' (key refactor)", "prefix-related account ids; the short one overdraws/closes"),
 "C04-a": ("CloseLease reads the group before PaymentClose: replacement order created although the overdraft just closed the deployment", "close-lease is the first tx to discover the exhausted escrow"),
 "C04-b": ("OnGroupClosed stops at the first already-closed order", "group with an earlier closed order (re-order after lease close), then close/pause group"),
 "C05-a": ("CreateLease closes the winner's deposit account instead of the losers'", "an order with >=2 open bids when the lease is created"),
 "C05-b": ("account-closed hook returns (not continues) at an already closed group: deployment stays active", "close one group, later close the deployment / overdraft"),
 "C06-a": ("payments iteration prefix loses its trailing '/' (buildKey helper)", "same tenant, dseq 1 and 12, the longer leased, the shorter closed"),
 "C06-b": ("LeaseIDFromEscrowAccount swaps gseq and oseq", "same provider holds leases (g,o) and (o,g) of one deployment, one is closed"),
 "C07-a": ("attestation attributes sorted case-insensitively after a map merge (ties keep map order)", "attribute keys differing only in case, then a second sign / partial delete"),
 "C07-b": ("process-local memo of validated certificates skips the CN==owner check on a hit", "B submits A's certificate after A's was validated in this process; a cold process rejects it"),
 "C08-a": ("any-of auditor list ignored when an all-of list is present (switch refactor)", "order with both lists, provider signed by all-of auditors but by no any-of auditor"),
 "C08-b": ("provider-update guard stops after the first compatible active lease", "provider with >=2 active leases requiring different attributes"),
 "C09-a": ("15 s 'recently verified' shortcut keyed by owner/serial", "forged cert (copied CN+serial) presented within 15 s of a genuine handshake; or revoked cert within 15 s"),
 "C09-b": ("two-element certificate list tolerated, last element verified, first element used as identity", "list [self-made leaf naming the victim, attacker's own genuine certificate]"),
 "C10-a": ("greedy matcher cursor skips earlier manifest records: extra leading service accepted, reordered equal totals rejected", "group with >=2 different units in another order than on chain"),
 "C10-b": ("version-update events dropped while the deployment fetch is in flight (versions slice removed)", "EventDeploymentUpdated(v2) arrives before the fetch answer (v1)"),
 "C11-a": ("existing network policy keeps its old spec on update (only labels refreshed)", "re-deploy that moves the globally exposed port of a service"),
 "C11-b": ("container limits built from the committed (not the leased) value", "commit level > 1 on any resource"),
 "C12-a": ("a 'pending' deployment status event frees ports that were never taken", "pending event for a not-yet-deployed reservation with endpoints, then another reservation with endpoints"),
 "C12-b": ("packer returns the unadjusted inventory once everything is placed before the last node", ">=2 nodes, a pending reservation that fits before the last node"),
 "C13-a": ("close-bid skipped when releasing the reservation fails (cleanup helper with early return)", "order ends without a win and Unreserve returns an error"),
 "C13-b": ("late reservation result assigned to a shadowed variable: never released", "order-closed/lease-lost/shutdown while Reserve is in flight, Reserve then succeeds"),
 "C14-a": ("failed deploy in state teardown-pending ends the manager without teardown", "lease closed while a deploy is in flight, that deploy then fails"),
 "C14-b": ("manager removed from the service's table as soon as teardown is requested", "another manifest or a second close for the lease while teardown is pending/in flight"),
 "C15-a": ("clone shares the parent's buffer and the parent rewinds it when drained", "clone with an undelivered event, parent drains, next publish overwrites the clone's pending event"),
 "C15-b": ("fan-out loop breaks (not continues) at a subscriber that is shutting down", "publish while a subscriber has accepted shutdown but is still registered; later subscribers lose the event"),
 "C16-a": ("OnGroupClosed closes the payment before marking the lease closed: duplicate lease-closed event", "pause-group is the first tx to discover the exhausted escrow"),
 "C16-b": ("dseq parsed as uint32 in event decoding", "deployment with dseq >= 2^32"),
 "C17-a": ("owner-filtered listing rejects an empty (serial 0) key suffix", "an owner registers serial 0, then lists by owner"),
 "C17-b": ("paginate callbacks report 'no hit' when not accumulating: no next_key, offset pages empty", "more matches than the page size, or an offset"),
 "C19-a": ("group totals ignore the replica count (mul result dropped)", "units within unit limits but unit x count beyond the group limit"),
 "C19-b": ("minimum deposit compared by amount only (denomination check lost)", "deposit >= minimum in a foreign denomination"),
 "C20-a": ("handleManifest waits on Done() instead of ShuttingDown()", "submit for a deployment whose manager is shutting down (deployment closed) before the service reaped it"),
 "C20-b": ("rejected requests stay queued and are answered again", "three consecutive rejected submissions (or two + shutdown) with lease and chain data present"),
 "C01-c": ("settlement replaces (instead of adding to) a payment's un-withdrawn balance; the account is still debited", ">=2 leases on one account, a settle triggered by the other lease while one payment carries a balance"),
 "C01-d": ("overdrawn account saved before the remainder is distributed: the remainder is recorded twice", "overdraft with deposit not a multiple of the block rate"),
 "C02-c": ("deposit settles first, then stores the stale pre-settlement copy of the account (lost update)", "deposit into an account with an open payment after a non-zero gap"),
 "C02-d": ("paymentWithdraw no longer saves a zero-balance payment: a close at zero balance is lost, the stream keeps accruing", "close of a lease in the block of its last withdrawal"),
 "C03-c": ("overdraft does not persist payments whose balance is zero", "withdrawal at the exact block of exhaustion, then any later settle"),
 "C03-d": ("same edit as C01-c seen through C03 (coins left in the module when nothing is open)", ">=2 leases on one account"),
 "C04-c": ("account-closed hook skips paused groups: a paused group survives the end of its deployment", "pause a group, then close or overdraw the deployment"),
 "C04-d": ("GroupSpec.Price() multiplies the running total by the count: order maximum inflated", ">=2 resource entries, a later one with count >= 2, bid between true and inflated maximum"),
 "C05-c": ("zero-gap settle returns no payments to AccountClose: payments stay open under a closed account", "close-deployment in the block in which the account was already settled"),
 "C05-d": ("closing an account whose balance is exactly zero is not persisted", "close-deployment at exactly the block the deposit is used up"),
 "C06-c": ("close-bid resolves the lease through the order: a losing bidder closes the winner's lease", ">=2 bidders, the loser sends close-bid for its lost bid"),
 "C06-d": ("settled payment looked up through a range-variable pointer (go 1.16 semantics): the last payment of the account is acted on", ">=2 payments on one account, action on one that does not sort last"),
 "C07-c": ("update-provider checks the leased orders in Go-map order: gas and log of a rejection vary per execution", "provider with >=2 active leases, update incompatible with some but not all"),
 "C07-d": ("MsgCreateCertificate.ValidateBasic refuses expired certificates by the wall clock", "a certificate whose NotAfter lies between two executions of the same transaction"),
 "C08-c": ("attribute match through a map lookup: a required attribute with an empty value is 'covered' by a missing key", "order requirement with an empty value"),
 "C08-d": ("tenant/provider separation compared as strings: the upper-case spelling of the tenant's own address passes", "tenant that is also a registered provider bids on its own order with an upper-case address"),
 "C09-c": ("certificate validity evaluated at now+2min ('clock drift tolerance')", "certificate whose NotBefore is less than two minutes ahead"),
 "C09-d": ("authenticated owner kept in a variable shared by all requests of a route", "two authenticated requests of different accounts interleaved between the assignment and its use"),
 "C10-c": ("version attribute of chain events loses leading zeros (TrimLeft with a cutset)", "deployment update to a version whose hex form starts with 0, received through the event parser"),
 "C10-d": ("queued manifest requests held by value: the stored manifest pointer aliases the loop variable", ">=2 uploads queued while the deployment fetch is in flight, the last one invalid"),
 "C11-c": ("protocol pointer shared by all ports of a service's network policy", "one service with two globally exposed ports of different protocols"),
 "C11-d": ("deployment update rebuilds the pod spec without the service-account-token switch", "a second Deploy for an existing lease"),
 "C12-c": ("status answer cached and not invalidated on the successful release path", "status, unreserve, status"),
 "C12-d": ("storage scaled by the memory commit level", "memory commit level > storage commit level"),
 "C13-c": ("in-flight create-bid result collected only after the close-bid decision", "order ends while the create-bid broadcast is in flight and then succeeds"),
 "C13-d": ("failed existing-bid lookup treated as 'no bid yet'", "restart with an open order the provider already bid on, lookup fails"),
 "C14-c": ("second manifest update during one in-flight deploy is dropped", ">=2 updates while one cluster operation is outstanding"),
 "C14-d": ("hostnames not released when the lease closes during the hostname reservation", "lease-closed between ReserveHostnames being sent and its answer being read"),
 "C15-c": ("delivery fast path: a new event overtakes the subscriber's backlog", "subscriber with a backlog whose reader is waiting when the next publish is handled"),
 "C15-d": ("drained subscriber forwards clone requests to its parent: deadlock with a publish in progress", "Clone() on an empty subscriber racing with Publish()"),
 "C16-c": ("overdraft 're-closes' an already closed group: extra group-closed event", "deployment with a group closed earlier, then an overdraft"),
 "C16-d": ("attestation update emits no event (emit only on first creation)", "the same auditor signs the same provider twice"),
 "C17-c": ("duplicate check became a prefix scan of the key", "same owner registers serial 256 then serial 1 (byte encodings prefix-related, longer first)"),
 "C17-d": ("owner matched against the Issuer CN instead of the Subject CN", "certificate that is not self-signed: issued by A, names B"),
 "C19-c": ("duplicate group names only detected when adjacent", ">=3 groups, equal names not adjacent"),
 "C19-d": ("per-unit CPU bound checked on the value truncated to 32 bits", "cpu = 2^32 + in-range value"),
 "C20-c": ("expected version taken from the fetched chain data only", "deployment-updated event arrives while the fetch is in flight"),
 "C20-d": ("'no lease' rejection moved to submission time; the later path answers nobody", "submission queued while a lease existed, lease lost before the fetch answer"),
 "C01-e": ("deposit settles first; on overdraft it returns success: the tenant is debited, nothing is recorded", "deposit as the first action after the funds ran out"),
 "C01-f": ("payout grouped by payee on a range-value copy: the second payment of the same payee is zeroed but never sent", "one provider holds leases on two groups of a deployment that is then closed"),
 "C02-e": ("closed payments still count towards the account's block rate (rate summed before the open filter)", "an account with a closed and an open payment, settled over a gap"),
 "C02-f": ("settlement clock not advanced while no payment is open; re-lease is paid for the idle blocks", "lease closed, idle blocks, new lease on the same deployment"),
 "C03-e": ("Account.ValidateBasic rejects an open account with zero balance (also used by ValidateGenesis)", "export while an account is open and exactly empty"),
 "C03-f": ("AccountClose marks an account closed whose own settlement just found it overdrawn", "close-deployment is the first action after the funds ran out"),
 "C04-e": ("losing-bid scan at lease creation bounded by OrderMaxBids: the last bid of a full order stays open", "order holding OrderMaxBids+1 bids, a bid that does not sort last is accepted"),
 "C04-f": ("account-closed hook made two-pass over &group of the range variable: only the last group's orders are wound down", "deployment with >=2 live groups ends"),
 "C05-e": ("deposit settles first and ignores the overdraft: coins written into an overdrawn account", "deposit as the first action after the funds ran out"),
 "C05-f": ("DeploymentIDFromEscrowAccount parses dseq with Atoi: hooks do not recognise dseq >= 2^63", "deployment with dseq > MaxInt64 is closed or overdrawn"),
 "C06-e": ("certificate serial parsed with automatic base detection: \"010\" revokes certificate 8", "revoke with a zero-padded serial while the owner holds the octal reading"),
 "C06-f": ("close-bid no longer checks that lease and bid are active: a former provider re-pauses the tenant's group", "close-bid for a bid that already ended"),
 "C07-e": ("per-order bid count kept in process memory (survives rolled-back transactions, lost on restart)", ">20 failed bids, or nodes with different process histories"),
 "C07-f": ("one bank transfer per payee while ranging over a map: transfer events in map order", "account with payments to >=2 owners paid out at once"),
 "C08-e": ("in-place attestation merge with binary search on a slice it appends to: withdrawn value survives", "re-signature listing a new key before an existing key whose value changes"),
 "C08-f": ("update guard skipped when no attribute KEY disappears (values not compared)", "update that keeps a key and changes its value under an active lease"),
 "C09-e": ("VerifyOptions (CurrentTime) built once at gateway start", "certificate that expires while the gateway runs"),
 "C09-f": ("HTTP layer takes the FIRST commonName, TLS layer verified the last", "certificate whose subject carries two commonName attributes"),
 "C10-e": ("cross validation uses its own copy of the ingress rule (container port 80 counts as HTTP)", "global TCP expose with port 80 published as another port"),
 "C10-f": ("'already accepted' fast path not invalidated by a chain update", "v1 accepted, chain update to v2, v1 re-submitted"),
 "C11-e": ("err shadowed in the network-policy loop: a failed apply returns nil", "kube API failure on Get/Create/Update of a network policy"),
 "C11-f": ("namespace hash input without separators: distinct leases share a namespace", "lease ids whose sequence digits concatenate identically"),
 "C12-e": ("packer filters the reservation's own cached resource list in place", ">=2 nodes and a reservation that spills across a node boundary"),
 "C12-f": ("a release removes every reservation of the order", "two outstanding reservations for one order"),
 "C13-e": ("order monitor stops on ANY provider's bid-closed event for the order (no close-bid)", "a competitor's bid on the same order is closed while ours is open"),
 "C13-f": ("start-up open-orders query moved to the background; catch-up creates a second monitor", "order-created event arrives while the start-up query is in flight"),
 "C14-e": ("a manifest for a manager that is shutting down starts a fresh manager (old one's exit then unreserves)", "late manifest while the old manager waits for its monitor"),
 "C14-f": ("hostnames of an updated manifest overwrite (not merge) the release list", "update that drops a hostname, then close"),
 "C15-e": ("subscriber backlog as a growing circular queue: wrapped part lost when it grows while full", "backlog reaching 16/32/.. after a partial read"),
 "C15-f": ("one goroutine per chain result in events.publishEvents", ">=2 results back to back on one subscription"),
 "C16-e": ("payment close run on a CacheContext: its events are dropped with the cache's event manager", "close-bid is the first transaction to find the overdraft"),
 "C16-f": ("OnBidLost goes through OnBidClosed: bid-closed events for bids that are only lost", "order with >=2 open bids when the lease is created"),
 "C17-e": ("listing serial via an int64 fast path for <=8 bytes: serials in [2^63,2^64) listed negative", "serial 2^63 .. 2^64-1"),
 "C17-f": ("validation cache keyed by certificate bytes only: owner check skipped on a hit", "B submits A's certificate after A's was validated in the same process"),
 "C19-e": ("validation runs on a coalesced view of equal resource entries (counts summed in uint32)", ">20 equal entries, or counts that wrap"),
 "C19-f": ("deployment keeper caches decoded params; governance writes the subspace directly", "minimum deposit raised by governance, then a create below the new minimum"),
 "C20-e": ("idle stop timer now starts; stopping it drains a channel that never fires", "manager idle at some point, later a lease or submission"),
 "C20-f": ("duplicate manifests skipped across the whole version history (no move to the end)", "versions A, B, then A again"),
 "C01-g": ("PaymentClose saves the pre-settlement copy of a payment as closed after the overdraft path paid it out", "two leases, long gap, close of one lease is the first action after exhaustion"),
 "C01-h": ("PaymentCreate saves the pre-settlement account: the debit of the settlement is undone", "second lease created some blocks after the first"),
 "C02-g": ("same-block settle returns no payments to AccountClose (payments stay open on a closed account)", "close-deployment in the block of an earlier settle trigger; caught as C03/C05"),
 "C02-h": ("InitGenesis rebases SettledAt of open accounts to the boot height", "export/import restart while an open account has unsettled blocks"),
 "C03-g": ("deposit settles first and returns success on overdraft (coins taken, nothing recorded)", "deposit as the first action after exhaustion"),
 "C03-h": ("ValidateGenesis table allows only overdrawn payments under an overdrawn account", "a lease closed earlier, then the account overdraws, then export"),
 "C04-g": ("close-bid no longer checks lease/bid state: a stale close-bid pauses the group again", "close-bid for an ended bid after the group was re-let or the deployment closed"),
 "C04-h": ("escrow payments prefix loses its trailing '/' (scopedKey refactor)", "same tenant, dseq 12 and 123, the shorter closed"),
 "C05-g": ("PaymentClose hands ALL open payments of the account to the payment-closed hook", "two concurrently leased groups, one lease ended individually"),
 "C05-h": ("LeaseIDFromEscrowAccount swaps gseq and oseq (loop refactor)", "leases 1/2/P and 2/1/P of one provider, one closed"),
 "C06-g": ("bids-for-group prefix cut at 8 instead of 4 bytes: closing one group closes the bids of all groups", "multi-group deployment, pause/close of one group"),
 "C06-h": ("create-lease infers 'bid open' from 'order open': revives a bid its provider withdrew", "provider closes its open bid, tenant then creates the lease"),
 "C07-g": ("pubkey and certificate validated concurrently: first error recorded wins", "certificate message with two independent defects"),
 "C07-h": ("new crisis invariant settles the accounts it inspects; runs per node-local --inv-check-period", "nodes with different invariant-check periods"),
 "C08-g": ("delete-by-key keeps an empty attestation record ('signed by' with nothing signed)", "auditor withdraws every key, order names the auditor and requires no attribute"),
 "C08-h": ("update guard marks a group checked before testing the lease state", "closed lease and active lease of the same group, then an update"),
 "C09-g": ("certificate checks moved to VerifyConnection and skipped on resumed sessions", "revocation between a full handshake and a resumed one"),
 "C09-h": ("status response cache keyed by URL path only", "two tenants with equal dseq/gseq/oseq within the cache lifetime"),
 "C10-g": ("update versions recorded only once (set instead of history)", "versions A, B, C, then B again"),
 "C10-h": ("cross validation limited to the groups leased at upload time", "version of a manifest that mismatches an unleased group, lease won later"),
 "C11-g": ("network policies applied after the workloads", "kube API failure after the first deployment was created"),
 "C11-h": ("stale-resource cleanup skipped when the deployment count does not exceed the service count", "update that replaces a service by a differently named one"),
 "C12-g": ("an inventory report with no nodes is ignored (previous nodes kept)", "refresh reporting zero nodes, then a reserve"),
 "C12-h": ("external ports checked for the new reservation only", ">=2 pending reservations with endpoints"),
 "C13-g": ("failed create-bid broadcast is retried once", "create-bid broadcast fails once"),
 "C13-h": ("order monitors run on the service context: close-bid at shutdown sent with a cancelled context", "shutdown by context cancellation with an open bid"),
 "C14-g": ("update branch decides on 'operation outstanding' only: deploy started before the hostnames are granted", "update between manager creation and the hostname answer"),
 "C14-h": ("hostname service validates and records in one pass", "manifest naming a free hostname before an unavailable one, then close"),
 "C15-g": ("backlog consumed by a read index; clone still copies from index 0", "clone after a partial read"),
 "C15-h": ("chain feed skips results whose height is not above the last one", ">=2 successful transactions in one block"),
 "C16-g": ("group transitions folded into one helper that has no event for insufficient-funds", "overdraft found by any settling transaction"),
 "C16-h": ("Publish merges both subscriptions and drops transactions behind the newest header", "header of block H+1 consumed before a transaction of block H; caught by the C15 feed scenario"),
 "C17-g": ("revoke parses the serial with base auto-detection", "zero-padded serial"),
 "C17-h": ("first page always counts the total (SDK FilteredPaginate skips an entry then)", "state filter, more matches than the limit, a non-match right after the page boundary"),
 "C19-g": ("group validation remembered per manifest version in process memory", "a second create with the same version and out-of-limit groups"),
 "C19-h": ("recover() in GroupSpec.ValidateBasic assigns to a local err", "quantity outside uint64"),
 "C20-g": ("fetch in-flight marker not cleared when the query fails", "one failed deployment query, then a submission or shutdown"),
 "C20-h": ("leases found at start-up are parked; a lease closed while parked is still handed over", "restart holding a lease, lease closed, then a submission"),
 "C01-i": ("per-block cache of an account's open payments not dropped on withdraw: paid twice at a same-block close", "withdraw-lease and close-deployment in one block"),
 "C01-j": ("genesis iterators decode into one reused value: exported amounts alias the last record", "export with >=2 accounts or payments of different amounts"),
 "C02-i": ("bulk payout grouped by payee on a range copy: only the first payment of a payee is sent", "one provider holds two leases of a deployment that is closed or overdrawn"),
 "C02-j": ("in-memory 'already settled this block' flag survives a reverted transaction", "a reverted settle, then a per-lease close in the same block"),
 "C03-i": ("paymentWithdraw fast path no longer saves a zero-balance payment", "close in the block of the payment's last payout or creation"),
 "C03-j": ("payments decoded into one reused value: amounts alias the last payment record of the account", ">=2 payment records on one account, one diverges, then a settlement"),
 "C04-i": ("Sscanf targets passed as oseq, gseq: the payment hook closes the lease of the swapped group", "leases 2/1 and 1/2 of one provider, the latter closed"),
 "C04-j": ("overdrawn account no longer winds down groups without a payment", "two groups, one leased (drains), one with an open order, overdraft"),
 "C05-i": ("OnGroupClosed finds 'the group's lease' by a first-match prefix scan (oldest, already closed)", "group re-let once, then closed / deployment closed / overdraft"),
 "C05-j": ("hooks moved out of doAccountSettle; the overdraft found inside AccountClose fires none", "close-deployment is the first action after exhaustion"),
 "C06-i": ("overdraft marks active leases by dseq only (empty owner = any owner)", "another tenant with the same dseq and an active lease"),
 "C06-j": ("deployment store keys keep the low 32 bits of dseq", "dseq >= 2^32 equal to an existing dseq modulo 2^32"),
 "C07-i": ("escrow keeper reuses a scratch slice shared with concurrent Simulate calls (data race)", "a query-side goroutine settling another account during DeliverTx - real threads inside the application, not under the simulator"),
 "C07-j": ("auditor index map from a sync.Pool returned dirty on an early return", "refused all-of bid, then another provider's bid (wrong admission); as a divergence: garbage collection in between on one node only"),
 "C08-i": ("audit records decoded into one reused value: attributes of earlier auditors bleed into later ones", ">=2 auditors attest one provider, the named one only partly"),
 "C08-j": ("registration only checked as a side effect of the attribute match, which is skipped for empty requirements", "unregistered bidder on an order without requirements"),
 "C09-i": ("falls back to a remembered certificate record when the chain query fails", "handshake, revocation, then a handshake while the node is unreachable"),
 "C09-j": ("x/cert ExportGenesis implemented, InitGenesis stores everything as valid", "export/import restart after a revocation; caught by the C17 round trip"),
 "C10-i": ("version update given up after 1 s when the manager is busy", "update event while a validation waits >1 s for the hostname service"),
 "C10-j": ("endpoint counts compared across the whole deployment", "a global expose moved to another group, hash recorded on chain"),
 "C11-i": ("base network policy only written when this Deploy created the namespace", "first Deploy fails after creating the namespace, or policies switched on after a restart"),
 "C11-j": ("commit-level guard lets levels in (0,1) through: requests above limits", "fractional commit level"),
 "C12-i": ("deployment status matched to a reservation by group instead of by order", "late status of the previous order sequence while the next one is reserved"),
 "C12-j": ("an outstanding reservation that no longer fits the refreshed inventory is skipped", "inventory shrinks between two reserves"),
 "C13-i": ("close-bid only when a reservation exists", "restart with a recovered bid, handling ends before any reservation"),
 "C13-j": ("recovered bid in state closed/lost ignored: second create-bid", "bid closed while the order stays open, then restart"),
 "C14-i": ("teardown started on shutdown overwrites the channel of the deploy in flight", "deploy in flight, lease closes, provider shuts down"),
 "C14-j": ("service subscribes to the bus after querying cluster and chain", "lease closes while the service starts over an existing workload"),
 "C15-i": ("bus shutdown stops and waits one subscriber at a time while ranging over the live map", "bus Close racing a subscriber's own Close"),
 "C15-j": ("one decode batch shared by the transaction and the header goroutine of Publish", "a transaction result and a header result in flight at once"),
 "C16-i": ("the feed drops repeated identical events within one result", "the same object makes the same transition twice in one transaction; caught by the C15 feed scenario"),
 "C16-j": ("OnBidClosed returns before the event when the escrow close fails", "bank refuses a refund (no reachable chain history makes it fail)"),
 "C17-i": ("revoked and expired certificates pruned when the owner registers another", "revoked certificate past NotAfter, then a create by the same owner"),
 "C17-j": ("write-through lookup cache in the keeper survives rolled-back transactions", "create or revoke followed by a failing message in the same transaction, then an owner+serial query"),
 "C19-i": ("&group of the range variable: only the last group is validated", "out-of-limit group that is not the last one"),
 "C19-j": ("lower bound on group totals dropped: a group without resource units passes", "group with an empty resource list"),
 "C20-i": ("submit request carried by value: the announced manifest aliases the last queued request", ">=2 submissions queued during the fetch, the last one rejected"),
 "C04-k": ("CloseBid pauses the group after the payment close instead of before it", "provider's close-bid is the first transaction to discover the overdraft: paused group under a closed deployment"),
 "C08-k": ("all-of auditors need to cover the required attributes only jointly", ">=2 all-of auditors, each attesting a part of the required attributes"),
 "C09-k": ("VerifyPeerCertificate's working variables shared by all handshakes", "an expired certificate's handshake waits for the chain while another client completes a handshake"),
 "C12-k": ("node carried over unadjusted when the last unit examined did not fit there", "two nodes, a two-service group straddling them, then a reserve into the forgotten capacity"),
 "C13-k": ("order context cancelled before the clean-up at shutdown: close-bid never submitted", "shutdown while a bid is placed, transaction client honours the context"),
 "C14-k": ("manifest for a lease whose manager is stopping starts a second manager", "manifest after teardown finished but before the service collected the old manager (slow health check)"),
 "C16-k": ("OnGroupClosed closes the payment before the lease", "pause-group is the first transaction to discover the overdraft: lease-closed emitted twice"),
 "C20-k": ("validated manifest appended only if its version is not in the history", "update to v2, back to v1, re-submission of the v1 manifest: v2 announced"),
 "C20-j": ("watchdog signals completion to the service before ShutdownCompleted: deadlock with stop()", "submission while the watchdog's close-bid is in progress"),
}

def main():
    rows = []
    os.makedirs(DST, exist_ok=True)
    for d in sorted(glob.glob(SRC + "/C*/[abcdefghijk]")):
        prop, var = d.split("/")[-2:]
        key = f"{prop}-{var}"
        res = os.path.join(d, "RESULT.txt")
        if not os.path.exists(res):
            continue
        txt = open(res).read()
        confirmed = ("demo-without-change: PASS" in txt and "demo-with-change: FAILS" in txt and
                     "build-with-change: OK" in txt and "existing-tests-of-touched-packages" in txt and
                     "existing-tests-of-touched-packages: FAIL" not in txt)
        checks = re.findall(r"check (C\d+) (\w+): exit=(\d) ?(.*)", txt)
        detected = {c: cls.strip() for c, tier, rc, cls in checks if rc == "1"}
        missed = [c for c, tier, rc, cls in checks if rc == "0"]
        broken = [c for c, tier, rc, cls in checks if rc not in ("0", "1")]
        if not confirmed:
            rows.append((key, "NOT CONFIRMED (not kept)", "", "", ""))
            continue
        out = os.path.join(DST, key)
        os.makedirs(out, exist_ok=True)
        shutil.copy(os.path.join(d, "patch.diff"), out)
        for f in glob.glob(d + "/*_test.go"):
            shutil.copy(f, os.path.join(out, os.path.basename(f) + ".txt"))
        if os.path.exists(os.path.join(d, "NOTES.md")):
            shutil.copy(os.path.join(d, "NOTES.md"), os.path.join(out, "NOTES.md"))
        what, needs = SHORT.get(key, ("", ""))
        demo_path = re.search(r"path=(\S+)", txt)
        meta = {
            "property": prop,
            "variant": var,
            "breaks": what,
            "needs_to_manifest": needs,
            "author": "independent sub-agent given only the property text and a scratch worktree",
            "demonstration": {"file": (os.path.basename(glob.glob(d + "/*_test.go")[0]) + ".txt") if glob.glob(d + "/*_test.go") else None,
                              "place_at": demo_path.group(1) if demo_path else None,
                              "note": "stored with a .txt suffix so that it is not compiled as part of /verif; copy to place_at inside a worktree to run"},
            "confirmed_by_me": {"builds_with_change": True, "demo_passes_without_change": True, "demo_fails_with_change": True,
                                "existing_tests_of_touched_packages_pass_with_change": True,
                                "how": "tools/seedeval.sh %s %s (scratch worktree /tmp/wt/%s, then git -C /repo apply / checks / git -C /repo checkout -- .)" % (prop, var, prop)},
            "checks_run_quick_tier": {c: ("VIOLATION " + cls) for c, cls in detected.items()} | {c: "not detected" for c in missed} | {c: "harness exit 2" for c in broken},
        }
        json.dump(meta, open(os.path.join(out, "meta.json"), "w"), indent=1)
        rows.append((key, what, needs, ", ".join(f"{c}: {cls.replace('class=','')}" for c, cls in detected.items()) or "-", ", ".join(missed + [b + " (exit 2)" for b in broken]) or "-"))
    with open("/verif/build/seeded_table.md", "w") as f:
        f.write("| change | what it breaks | needs | detected by (quick tier) | run but not detected |\n|---|---|---|---|---|\n")
        for r in rows:
            f.write("| %s | %s | %s | %s | %s |\n" % r)
    print(open("/verif/build/seeded_table.md").read())

if __name__ == "__main__":
    main()
