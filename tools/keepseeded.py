#!/usr/bin/env python3
"""Copies the confirmed seeded changes from /tmp/seeded into /verif/seeded/<property>-<variant>/ (patch.diff,
the demonstration, NOTES.md of the author, meta.json) and writes the seeded part of SENSITIVITY.md.
A change is kept only when tools/seedeval.sh confirmed it: builds, the demonstration fails with the change
and passes without, the existing tests of the touched packages pass with the change."""
import glob, json, os, re, shutil, sys

SRC = "/tmp/seeded"
DST = "/verif/seeded"

SHORT = {
 "C01-a": ("settlement sums the rates of closed payments too: the account is debited for them, nobody is credited", ">=2 payments on one account, one closed while another stays open, then a settle over a non-zero gap"),
 "C01-b": ("deposit adds the amount regardless of denomination", "a deposit-deployment in a foreign denomination"),
 "C02-a": ("overdraft: the whole even-split remainder goes to the first payee", "overdraft with >=3 open payments and a remainder >=2"),
 "C02-b": ("payments iteration prefix loses its trailing '/': account owner/7 also settles payments of owner/70", "same owner, decimal-prefix-related dseq, the longer one leased, the shorter one settles"),
 "C03-a": ("zero-elapsed-blocks settle returns no payments again (AccountClose leaves payments open)", "account closed in the block of its last settlement while a payment is open"),
 "C03-b": ("payments iteration prefix loses its trailing '/' (key refactor)", "prefix-related account ids; the short one overdraws/closes"),
 "C04-a": ("CloseLease reads the group before PaymentClose: replacement order created although the overdraft just closed the deployment", "close-lease is the first tx to discover the exhausted escrow"),
 "C04-b": ("OnGroupClosed stops at the first already-closed order", "group with an earlier closed order (re-order after lease close), then close/pause group"),
 "C05-a": ("CreateLease closes the winner's deposit account instead of the losers'", "an order with >=2 open bids when the lease is created"),
 "C05-b": ("account-closed hook returns (not continues) at an already closed group: deployment stays active", "close one group, later close the deployment / overdraft"),
 "C06-a": ("payments iteration prefix loses its trailing '/' (buildKey helper)", "same tenant, dseq 1 and 12, the longer leased, the shorter closed"),
 "C06-b": ("LeaseIDFromEscrowAccount swaps gseq and oseq", "same provider holds leases (g,o) and (o,g) of one deployment, one is closed"),
 "C07-a": ("attestation attributes sorted case-insensitively after a map merge (ties keep map order)", "attribute keys differing only in case, then a second sign / partial delete"),
 "C07-b": ("process-local memo of validated certificates skips the CN==owner check on a hit", "B submits A's certificate after A's was validated in this process; a cold process rejects it"),
 "C08-a": ("any-of auditor list ignored when an all-of list is present (switch refactor)", "order with both lists, provider signed by all-of auditors but by no any-of auditor"),
 "C08-b": ("provider-update guard stops after the first compatible active lease", "provider with >=2 active leases requiring different attributes"),
 "C09-a": ("15 s 'recently verified' shortcut keyed by owner/serial", "forged cert (copied CN+serial) presented within 15 s of a genuine handshake; or revoked cert within 15 s"),
 "C09-b": ("two-element certificate list tolerated, last element verified, first element used as identity", "list [self-made leaf naming the victim, attacker's own genuine certificate]"),
 "C10-a": ("greedy matcher cursor skips earlier manifest records: extra leading service accepted, reordered equal totals rejected", "group with >=2 different units in another order than on chain"),
 "C10-b": ("version-update events dropped while the deployment fetch is in flight (versions slice removed)", "EventDeploymentUpdated(v2) arrives before the fetch answer (v1)"),
 "C11-a": ("existing network policy keeps its old spec on update (only labels refreshed)", "re-deploy that moves the globally exposed port of a service"),
 "C11-b": ("container limits built from the committed (not the leased) value", "commit level > 1 on any resource"),
 "C12-a": ("a 'pending' deployment status event frees ports that were never taken", "pending event for a not-yet-deployed reservation with endpoints, then another reservation with endpoints"),
 "C12-b": ("packer returns the unadjusted inventory once everything is placed before the last node", ">=2 nodes, a pending reservation that fits before the last node"),
 "C13-a": ("close-bid skipped when releasing the reservation fails (cleanup helper with early return)", "order ends without a win and Unreserve returns an error"),
 "C13-b": ("late reservation result assigned to a shadowed variable: never released", "order-closed/lease-lost/shutdown while Reserve is in flight, Reserve then succeeds"),
 "C14-a": ("failed deploy in state teardown-pending ends the manager without teardown", "lease closed while a deploy is in flight, that deploy then fails"),
 "C14-b": ("manager removed from the service's table as soon as teardown is requested", "another manifest or a second close for the lease while teardown is pending/in flight"),
 "C15-a": ("clone shares the parent's buffer and the parent rewinds it when drained", "clone with an undelivered event, parent drains, next publish overwrites the clone's pending event"),
 "C15-b": ("fan-out loop breaks (not continues) at a subscriber that is shutting down", "publish while a subscriber has accepted shutdown but is still registered; later subscribers lose the event"),
 "C16-a": ("OnGroupClosed closes the payment before marking the lease closed: duplicate lease-closed event", "pause-group is the first tx to discover the exhausted escrow"),
 "C16-b": ("dseq parsed as uint32 in event decoding", "deployment with dseq >= 2^32"),
 "C17-a": ("owner-filtered listing rejects an empty (serial 0) key suffix", "an owner registers serial 0, then lists by owner"),
 "C17-b": ("paginate callbacks report 'no hit' when not accumulating: no next_key, offset pages empty", "more matches than the page size, or an offset"),
 "C19-a": ("group totals ignore the replica count (mul result dropped)", "units within unit limits but unit x count beyond the group limit"),
 "C19-b": ("minimum deposit compared by amount only (denomination check lost)", "deposit >= minimum in a foreign denomination"),
 "C20-a": ("handleManifest waits on Done() instead of ShuttingDown()", "submit for a deployment whose manager is shutting down (deployment closed) before the service reaped it"),
 "C20-b": ("rejected requests stay queued and are answered again", "three consecutive rejected submissions (or two + shutdown) with lease and chain data present"),
}

def main():
    rows = []
    os.makedirs(DST, exist_ok=True)
    for d in sorted(glob.glob(SRC + "/C*/[ab]")):
        prop, var = d.split("/")[-2:]
        key = f"{prop}-{var}"
        res = os.path.join(d, "RESULT.txt")
        if not os.path.exists(res):
            continue
        txt = open(res).read()
        confirmed = ("demo-without-change: PASS" in txt and "demo-with-change: FAILS" in txt and
                     "build-with-change: OK" in txt and "existing-tests-of-touched-packages" in txt and
                     "existing-tests-of-touched-packages: FAIL" not in txt)
        checks = re.findall(r"check (C\d+) (\w+): exit=(\d) ?(.*)", txt)
        detected = {c: cls.strip() for c, tier, rc, cls in checks if rc == "1"}
        missed = [c for c, tier, rc, cls in checks if rc == "0"]
        broken = [c for c, tier, rc, cls in checks if rc not in ("0", "1")]
        if not confirmed:
            rows.append((key, "NOT CONFIRMED (not kept)", "", "", ""))
            continue
        out = os.path.join(DST, key)
        os.makedirs(out, exist_ok=True)
        shutil.copy(os.path.join(d, "patch.diff"), out)
        for f in glob.glob(d + "/*_test.go"):
            shutil.copy(f, os.path.join(out, os.path.basename(f) + ".txt"))
        if os.path.exists(os.path.join(d, "NOTES.md")):
            shutil.copy(os.path.join(d, "NOTES.md"), os.path.join(out, "NOTES.md"))
        what, needs = SHORT.get(key, ("", ""))
        demo_path = re.search(r"path=(\S+)", txt)
        meta = {
            "property": prop,
            "variant": var,
            "breaks": what,
            "needs_to_manifest": needs,
            "author": "independent sub-agent given only the property text and a scratch worktree",
            "demonstration": {"file": (os.path.basename(glob.glob(d + "/*_test.go")[0]) + ".txt") if glob.glob(d + "/*_test.go") else None,
                              "place_at": demo_path.group(1) if demo_path else None,
                              "note": "stored with a .txt suffix so that it is not compiled as part of /verif; copy to place_at inside a worktree to run"},
            "confirmed_by_me": {"builds_with_change": True, "demo_passes_without_change": True, "demo_fails_with_change": True,
                                "existing_tests_of_touched_packages_pass_with_change": True,
                                "how": "tools/seedeval.sh %s %s (scratch worktree /tmp/wt/%s, then git -C /repo apply / checks / git -C /repo checkout -- .)" % (prop, var, prop)},
            "checks_run_quick_tier": {c: ("VIOLATION " + cls) for c, cls in detected.items()} | {c: "not detected" for c in missed} | {c: "harness exit 2" for c in broken},
        }
        json.dump(meta, open(os.path.join(out, "meta.json"), "w"), indent=1)
        rows.append((key, what, needs, ", ".join(f"{c}: {cls.replace('class=','')}" for c, cls in detected.items()) or "-", ", ".join(missed + [b + " (exit 2)" for b in broken]) or "-"))
    with open("/verif/build/seeded_table.md", "w") as f:
        f.write("| change | what it breaks | needs | detected by (quick tier) | run but not detected |\n|---|---|---|---|---|\n")
        for r in rows:
            f.write("| %s | %s | %s | %s | %s |\n" % r)
    print(open("/verif/build/seeded_table.md").read())

if __name__ == "__main__":
    main()
