#!/bin/bash
# usage: tools/refeval.sh <area> <r1|r2> <checks...>
# Applies a behaviour-preserving refactoring (/tmp/refactor/<area>/<rN>/patch.diff) to /repo, runs the given
# checks (quick tier), undoes it.  Expected: every check exits 0 (no alarm, no harness trouble).
A=$1; V=$2; shift 2
D=/tmp/refactor/$A/$V
cd /verif
git -C /repo apply $D/patch.diff || { echo "$A-$V PATCH-DOES-NOT-APPLY"; exit 0; }
R=""
for c in "$@"; do
  # "C13:t" = thorough tier (Layer 2 where there is one) with a 150 s budget
  tier=quick; extraargs=""
  case $c in *:t) c=${c%:t}; tier=thorough; extraargs="-budget 150";; esac
  out=$(VERIF_MINIMISE_S=4 timeout 1500 ./check $c $tier -noevidence $extraargs 2>&1)
  rc=$?
  cls=$(echo "$out" | grep -o "class=[^ ]*" | sort -u | tr '\n' ' ')
  extra=$(echo "$out" | grep -E "LAYER2-UNAVAILABLE|BUILD-FAILED|HARNESS" | head -2 | tr '\n' ' ')
  R="$R $c/$tier:rc=$rc $cls$extra;"
done
git -C /repo apply -R $D/patch.diff 2>/dev/null || git -C /repo checkout -- .
git -C /repo checkout -- .
for f in $(git -C /repo status --short | grep "^??" | awk '{print $2}'); do rm -rf "/repo/$f"; done
echo "$A-$V:$R" | tee -a /tmp/refactor/RESULTS.txt
