#!/usr/bin/env python3
"""Writes /verif/SENSITIVITY.md: which check catches which breaking change (own mutations, reverted fixes,
independently written seeded changes).  The seeded table comes from tools/keepseeded.py."""
import subprocess, os

HEAD = """# SENSITIVITY - which check catches which change

Three sources of breaking changes were run against the checks.  "Detected" always means: the registered
command (`./check <id> quick` unless a tier is named) exited 1 with a `VIOLATION property=<id> replay=<file>`
line whose replay reproduced in a fresh OS process; the violation class is given.

## 1. The repaired defects, re-introduced (revert of each `fix:` commit)

`git -C /repo show <commit> | git -C /repo apply -R`, run the check, `git -C /repo checkout -- .`

| reverted commit | check | class reported |
|---|---|---|
| ddc74e8 (zero-balance close not saved) | C03, C02, C05 | C03/close-ineffective-payment, C02/overcharge, C05/lease-vs-payment |
| 6a096f3 (zero-gap AccountClose) | C03, C05 | C03/payment-open-account-not-open, C05/lease-vs-payment |
| 1c05d01 (start/pause group under closed deployment) | C04 | C04/closed-deployment-live-group |
| 8b7da47 (max group count) | C19 | C19/admitted-outside-limits |
| 103a15e (serial 0 listing) | C17 | C17/listing-panicked |
| c2468ae (group paused/started events) | C16 | C16/event-not-decodable |
| 41c8a75 (late reservation/bid discarded) | C13 | C13/reservation-leaked, C13/bid-not-closed |
| b6c3659 (netpol error swallowed) | C11 | C11/netpol-no-default-deny |
| 71850ba (stale netpol) | C11 | C11/netpol-ingress-port-not-global |
| a046f32 (ResourceUnits.Add aliasing) | C12 | C12/status-amounts-changed |
| cabce8b (overlapping inventory checks) | C12 | C12/granted-but-not-placeable |
| 4237ef2, 12413ef, 723f247 (gateway) | C09 | C09/foreign-issuer-cert-accepted, C09/forged-cert-accepted, C09/revoked-cert-accepted-on-resumed-session |
| a8681cd (teardown during hostname reservation) | C14 (Layer 2 runs) | C14/no-teardown-after-close |
| 4a2081b (stop request swallowed in the hostname check) | C20 (Layer 2 runs, thorough tier) | C20/announced-without-lease |
| 78487b9 (step in progress goes on after the stop request was taken) | C20 (Layer 1 runs with a slow hostname service; quick tier, seeds 1-5) | C20/announced-without-lease |

## 2. Own mutations (applied through a build overlay, never to /repo)

| mutation | check | result |
|---|---|---|
| bus.go: clone does not copy the undelivered events | C15 | C15/out-of-order-or-lost (Layer 1), 5 operations |
| bus.go: drop two events from the buffer when it is long | C15 | C15/out-of-order-or-lost (Layer 1) |
| bus.go: fan-out with `go sub.Publish(ev)` (well-meant asynchrony) | C15 | **Layer 1: not detected in 4000 runs; Layer 2: C15/l2-not-linearizable** (two subscribers see two publishers' events in different orders) |
| manager.go: teardown request forgotten in state deploy-pending | C14 | C14/deploy-after-teardown-requested, C14/no-teardown-after-close |
| manager.go: update in deploy-pending keeps the older manifest | C14 | C14/stale-manifest-deployed |
| manager.go: eager `go dm.doTeardown()` | C14 | C14/concurrent-cluster-operations |
| kube builder: `Privileged: true` | C11 | C11/container-privileged |
| kube: namespace hash from the owner only | C11 | C11/isolation-request-outside-lease-namespace |
| kube: commit-level clamp removed | C11 | C11/requests-exceed-limits |
| kube: stale-resource cleanup across all namespaces | C11 | C11/isolation-request-outside-lease-namespace, C11/isolation-foreign-object-changed |
| kube: extra egress rule to 10.0.0.0/8 | C11 | C11/netpol-egress-private |
| kube: deployment update keeps old containers | C11 | C11/limits-not-equal-leased |
| kube: AutomountServiceAccountToken line dropped | C11 | C11/service-account-token-mounted |
| kube: same-namespace ingress rule selects every akash namespace | C11 | C11/netpol-ingress-from-outside |
| gateway: no `State: valid` filter / IsState check | C09 | C09/revoked-cert-accepted |
| gateway: KeyUsages removed or ExtKeyUsageAny | C09 | C09/wrong-usage-accepted |
| gateway: CurrentTime fixed in the past / now-3h | C09 | C09/expired-cert-accepted |
| gateway: chain query error ignored | C09 | C09/accepted-despite-query-fault, unknown-/revoked-cert-accepted |
| gateway: owner/provider taken from `?owner=` / `?provider=` | C09 | C09/request-scoped-to-foreign-owner / -provider |
| gateway: certificate-count check removed | C09 | C09/chain-accepted |
| gateway: cert.Verify result ignored | C09 | C09/expired-, not-yet-valid-, wrong-usage-accepted |
| gateway: no-cert falls back to `?owner=` | C09 | C09/no-cert-accepted |
| gateway: lookup by owner only | C09 | C09/unknown-cert-accepted, revoked-cert-accepted |
| gateway: requireOwner uses the Issuer CN | C09 | equivalent mutant with self-signed certificates only; C09/request-scoped-to-foreign-owner once foreign-issuer credentials are generated |

Semantics-preserving edits (the instrumented Layer-2 copies of all 14 actor files, which replace every
`select`, channel operation and `go` statement by library calls, run all Layer-1 scenarios in pass-through mode)
raise no alarm: 3000 runs each of C12-C15, C20 on the rewritten sources were clean.

## 3. Independently written changes (`seeded/<property>-<variant>/`)

Written by fresh sub-agents that were given only the text of one property and a scratch worktree (nothing
from /verif), asked for a change that compiles, passes the existing tests and needs something specific to
manifest, with a demonstration.  Each was confirmed by `tools/seedeval.sh` (demo fails with / passes without,
build ok, touched packages' tests pass) before it was kept.  The "detected by" column is the **current** state
of the checks; the last column says what had to be strengthened when a change was first missed.

"""

STRENGTHENED = """
### What the misses led to

| first missed | why | what was strengthened |
|---|---|---|
| C02-a (even-split remainder) | random histories rarely had >=3 concurrently open payments with an overdraft remainder >=2 | scripted small-scope sweep workloads (40 % of C02 runs): deposit 20..32, 1-3 payments at rates 1..4, gaps 0..8, up to four settle triggers |
| C02-b / C03-b / C06-a by **C06** (caught at once by C01/C02/C03) | prefix-related dseq of one owner with a lease on the longer one were rare | C06 draws dseq from the family {1,12,120,1200,256,65536} in 70 % of cases and leases more often |
| C06-b (gseq/oseq swap) by C06 (caught by C05) | write-set scope was "the deployment" | scope narrowed: a message naming a group/order/bid/lease may not change market, group or bid-deposit records of another group unless the transaction ended the deployment |
| C07-a (case-insensitive sort) | attribute universe had no keys differing only in case | `Region`/`TIER` added to the universe in C07 runs |
| C07-b (process-local memo) by C07 (caught by C17 after adding "replayed foreign certificate" inputs) | every process in the comparison had seen the same history | the cross-process check can now start the child from a dump of the node's disk taken mid-history (a node restarted in a fresh process) |
| C13-a (close-bid skipped when Unreserve fails) | Unreserve was never failed | Unreserve is failable like every other call |
| C14-b (manager dropped at teardown request) | no stimulus after the close | late manifests and repeated lease-closed signals are generated for closed leases |
| C03-c (overdraft does not persist zero-balance payments) | needs a withdrawal at the exact block of exhaustion | C03 and C05 run the scripted sweep workloads in 30 % of their runs |
| C04-d (order maximum inflated) | the oracle used `GroupSpec.Price()` itself as "the order's maximum" | the maximum is computed by the harness (sum of unit price x count); C08 and C13 use the same independent value; C13 orders may have two resource entries |
| C06-c (loser closes the winner's lease) | changes stayed inside the named group, which was the finest scope checked; close-bid was rarely aimed at a lost bid | new rule: an action assigned to a provider must not change the state of another provider's bid, lease, deposit account or payment while the deployment stays active; close-bid of lost bids generated |
| C07-c (orders checked in map order) | a provider rarely had >= 2 active leases, and a probabilistic divergence did not reproduce in the single confirmation replay | busy-provider mode + targeted update-provider generator; 2-4 replicas; replays of C07 are repeated up to 12 times (the property is about repetitions) |
| C07-d (wall clock in ValidateBasic) | every process of a comparison read the same real clock | clock-skew fault: the child process replays under a simulated wall clock (2003..2095); certificates with validity ends from 2001 to 2090 |
| C08-c (empty attribute value) / C08-d (upper-case spelling of the tenant's address) | the attribute universe had no empty value; the harness's own "provider is the tenant" test compared strings as the changed code does | `gpu=""` in the universe; self-bids in both spellings; the oracle compares decoded accounts |
| C09-c (validity evaluated at now+2min) | validity windows were hours away from their boundaries | four windows 5 s / 90 s from a boundary |
| C09-d (owner in a variable shared across requests) | requests were strictly sequential | Layer 2 for the gateway: statement-level scheduling points in the middleware, 2-3 concurrent authenticated requests |
| C10-c (leading zeros of the version lost in event parsing) | the scenario put typed events on the bus | chain events go through the provider's real event parser; dropped events are dropped |
| C10-d (announced manifest aliases the last queued request) | caught at once by C20 (announced-unvalidated-manifest); C10 had no class for it | C10 flags an announced manifest whose hash was never a version on chain |
| C13-d (failed existing-bid lookup = no bid) | "at most one bid" was checked per incarnation | the chain model flags a create-bid arriving while the provider's bid is on chain, whichever incarnation sent it; lookup failures three times as likely |
| C14-d (hostnames not released when closed during the reservation) | only Layer 2 reaches the window, and Layer 2 did not ask the hostname service afterwards | Layer 2 ends with a full quiescence (time passes until nothing wakes up) and then asks the real inventory and hostname services |
| C17-c (duplicate check by key prefix) | a refused fresh registration was only counted (the statement does not demand success) | refusing a never-registered (owner, serial) *with the reason "certificate exists"* is flagged: uniqueness is per pair |
| C17-d (owner = Issuer CN) | all generated certificates were self-signed | certificates issued by one account naming another, submitted by either |
| C19-c (adjacent duplicates only) / C19-d (cpu truncated to 32 bits) | duplicates were generated adjacent; no value beyond 2^32 with in-range low bits | non-adjacent duplicate names in 3-5 groups; values = in-range + 2^16 / 2^32 / 2^48; excess in a later resource entry |
| C05-e (deposit into an exhausted account) | the equivalences held; nothing said that an ended account keeps nothing | C05: an escrow account that is no longer open holds no balance |
| C05-f (dseq parsed with Atoi) | no dseq beyond 2^63 | dseq pool gains 2^63-1, 2^63, 2^64-1 |
| C06-e (serial "010" read as octal) | serials were only spelled as plain decimals; the scope of a revocation was "the owner's certificates" | zero-padded, signed and hexadecimal spellings; a revocation may change only the certificate whose serial is the decimal reading of what it names; serials 8, 10, 16 |
| C06-f (close-bid through an ended bid) | the change stays inside the named group | a provider action naming a bid that already ended (closed/lost) may change nothing |
| C08-e (withdrawn attestation value survives) | the oracle read attestations from the store, as the changed code does | attestations and provider declarations are modelled from the successful transactions alone; messages list attributes in any order; correcting re-signatures are generated |
| C09-f (first vs last commonName) | subjects had one commonName | registered certificates whose subject carries the victim's address first and the owner's last |
| C10-e (ingress rule copy) | the only non-HTTP expose was 8080 -> 8080 | container port 80 published as 8080, 8000 published as 80, port without "as" |
| C13-e (stops on a competitor's bid-closed) | no events about competitors' bids | noise events now include a competitor's bid created / closed on the same order, in both layers |
| C13-f (start-up query in the background) | **the check hung**: a released Layer-2 injector task kept spinning when the scenario returned early | injector told to stop before goroutines are released; per-run watchdog in the driver (exit 2, never a verdict); then caught as second-bid-same-order |
| C14-f (hostname release list overwritten by an update) | every manifest version asked for the same hostname | every second version swaps the hostname; after close all hostnames ever asked for must be free |
| C15-e (circular backlog loses the wrapped part) | backlogs never reached 16 | publish bursts of 4-33 events against slow readers in a quarter of the Layer-1 runs |
| C15-f (goroutine per chain result) | events/publish.go was not under the scheduler | new Layer-2 scenario: events.publishEvents runs as a simulated task on a filled subscription channel (transaction, failed-transaction and block results); per-stream order and exactly-once at every subscriber |
| C16-f (bid-closed for lost bids) | the oracle tolerated a bid-closed event for a bid that became lost | tolerance removed: the unchanged code emits none and "lost" is not "closed" |
| C17-e (int64 fast path when listing) | no serial in [2^63, 2^64) | serials 2^31, 2^32, 2^63-1, 2^63, 2^64-1 |
| C19-f (cached params) | parameters never changed after genesis | governance parameter change (Subspace.Update of the minimum deposit, as the parameter-change proposal handler does) as a block-level event; the oracle follows the new minimum |
| C20-f (stale manifest after a roll-back) | every update was a new manifest | 30 % of updates return to the manifest before the current one |
| C02-h (settlement clock rebased on genesis import) | exports were only validated, never imported | the exported state is imported into a fresh application and exported again; for C01/C02/C03/C05 the escrow section must come back unchanged |
| C05-h / C06-b (gseq/oseq swapped when decoding a payment id) | leases (1,2) and (2,1) of one provider were rare | busy-provider and spread modes for C03/C05, more multi-group deployments, lease churn not damped |
| C06-h (create-lease revives a withdrawn bid) | no rule for a tenant acting on an ended bid | a create-lease naming a bid that is not open may change nothing; withdrawn bids of open orders are targeted |
| C07-g (concurrent validation, first error wins) | every invalid certificate message had one defect | messages with a wrong PEM type in the certificate, the public key or both |
| C07-h (state-writing invariant behind a node-local option) | every replica ran with the same operator options | replica i runs with --inv-check-period i |
| C09-h (response cache keyed by path) | **the check hung**: a handler parked at a scheduling point while holding the cache's mutex; and a cached answer reaches no back end, which was the only thing the oracle watched | yieldgen inserts no scheduling point while a lock is visibly held; a 200 on a lease or deployment route must be backed by a back-end call for the authenticated account in that request |
| C10-h (cross validation limited to leased groups) | the on-chain version was always the hash of a manifest that matches the groups | the tenant may record the version of a mismatching manifest |
| C12-g (empty inventory report ignored) | reports always had 1-4 nodes | 12 % of the refreshes report no node |
| C13-h (close-bid sent with a cancelled context) | shutdown was always Service.Close(); an abandoned close-bid call counted as submitted | a third of the shutdowns cancel the service context; a call abandoned because its own context was cancelled is not a submission |
| C14-h (hostnames recorded before the whole reservation is checked) | one hostname per manifest, never refused | some leases name a free hostname followed by one on the provider's block list; their own hostname must be free after close |
| C15-h (results of one block dropped) | feed results carried no heights | heights as a node sets them, several transactions per block, one header per block |
| C16-h (merged subscriptions drop overtaken transactions) | only publishEvents was driven | 40 % of the feed runs drive events.Publish with a stand-in node client; goroutines created by errgroup are ordered by the names of the channels they select on |
| C19-g (validation remembered in process memory) | **exit 2**: the violation depended on what the worker process had executed before and did not reproduce in a fresh process | replay files record the worker's position; a replay that shows nothing in a fresh process is repeated after the preceding runs of that worker and reported with a WARM-PROCESS note |
| C15-j (Publish refactored into methods) | **every provsim check ended with exit 2**: the build overlay called the unexported `publishEvents`, which no longer existed | no overlay on the events package any more: the harness uses the exported module parsers (`sim/evparse`) and drives `events.Publish` only |
| C15-i (bus shutdown over the live map) | the instrumenter rewrote `for k := range m` into a loop over a snapshot of the keys, which hides exactly the skipped-entry semantics the change depends on | rewritten map ranges skip entries removed during the iteration; subscribers must have stopped once their own or the bus's Close returned |
| C17-j (keeper cache survives rolled-back transactions) | listings were asked of a querier the harness built itself over the store | after every commit the certificate pairs named by the block's transactions (accepted or rejected) are looked up through the application's own query router |
| C01-j (export aliases amounts) / C09-j (revoked certificates valid after import) | exported records were never compared with the stored ones; only the escrow section was round-tripped | exported escrow records are compared with the store record by record; the certificate section is round-tripped for C17 |
| C02-i (only a payee's first payment is sent) | C02 looked at the records only (C01 caught it) | C02 compares every actor's bank receipts with what the records of the transaction say was paid out |
| C12-i (status matched by group) | status events always belonged to an outstanding reservation's order | late status events of another order sequence of the same group |
| C13-j (closed bid ignored at catch-up) | a closed bid left no record in the chain model | bid records persist after close; a create-bid for an order the provider ever bid on is a second bid; a closed bid found at catch-up is no close-bid obligation |
| C14-i (teardown overtakes the deploy at shutdown) | shutdown only happened at the end of a history | a quarter of the Layer-1 histories contain a provider shutdown; afterwards only the safety clauses are judged |
| C16-i (feed drops repeated events) | caught by the C15 feed scenario once results may repeat an identical event | - |
| C10-i (version update given up after 1 s) | the hostname service of the manifest scenario answered at once, so a validation never took time | in 30 % of the Layer-1 runs the hostname service answers only when the schedule says so; version updates, closes and clock steps fall into the wait (this also uncovered S16) |
| C14-j (service subscribes after the start-up queries) | every history began with an empty cluster | a quarter of the histories of both layers start the cluster service over workloads that are already running: the cluster's and the node's answers are parked calls; in Layer 2 leases close and updates arrive while the service is still waiting for them (in Layer 1 such an event races with the new managers' first `select` and broke the determinism self-test) |
| C07-j (pooled auditor index handed back dirty) | as a determinism fault it depends on when the collector empties the pool; as an admission fault it needs all-of requirements over several auditors and partly attested providers, which were rare | C08 worlds have 1-3 auditors and sign requirements twice as often: caught by C08 as inadmissible-bid-accepted within the first hundred runs (C07 itself reaches it only rarely) |
| C09-k (verification variables shared by all handshakes; round 7) | no two handshakes ever overlapped | new operation: one client's handshake waits 3 s of bubble time for a truthful chain answer while another client completes a handshake and a request; each is judged by itself (the other seven changes of round 7 - C04-k, C08-k, C12-k, C13-k, C14-k, C16-k, C20-k - were caught at once) |
| not reached: C07-i (data race with a concurrent Simulate goroutine: real threads inside the application are outside the simulator), C16-j (needs a failing bank refund, which no chain history produces) | | |
| C20-a (wait on Done()) / C10-b (updates dropped during fetch) | deployment-closed rarely hit an in-flight fetch; fetch answers were always computed at completion time; no submission of the previous version | close is 4x more likely while a fetch is in flight; 40 % of fetch answers reflect the state at issue time; new submission kind "previous-version" |
"""

REFACTORS = """
## 4. Behaviour-preserving restructurings (`refactors/<area>-<r1|r2>/`): no alarm expected

Twenty patches written by fresh sub-agents that were told to restructure one area of /repo without changing
behaviour (renamed unexported identifiers and struct fields, reordered declarations, loops split into helper
methods, select loops turned into `step()` methods, files split) - 420 to 1 750 diff lines each, the touched
packages' tests pass.  Each was applied to /repo (`tools/refeval.sh`), the checks whose code it touches were run
(quick tier; for the provider's actors also the thorough tier with a 150 s budget, so that the Layer-2
instrumenter meets the restructured sources), and the patch was undone.  Expected and obtained: exit 0
everywhere, no `LAYER2-UNAVAILABLE`.

| area | patch r1 | patch r2 | checks run | result |
|---|---|---|---|---|
| x/escrow | keeper operations, store access, keys | settlement, payout helpers, type validation | C01 C02 C03 C05 | exit 0 |
| x/market | message server, escrow hooks, id parsing | keeper store access, keys | C04 C05 C06 C08 C16 | exit 0 |
| x/deployment | keeper store access, keys | message server, group/resource validation, matching | C04 C19 C16 C08 | exit 0 |
| x/cert, x/audit, x/provider, types/attribute | x/cert keeper, handler, types | audit keeper, provider handler, attributes | C17 C08 C07 | exit 0 |
| provider/bidengine | order.go run loop into per-result handlers | service.go, provider attribute services | C13 quick + thorough | exit 0 |
| provider/manifest | manager run loop, watchdog (rebased onto fix 78487b9) | service loop, validation/manifest.go | C20 C10 quick, C20 thorough | exit 0 |
| provider/cluster | deployment manager, service | inventory, hostname service, monitor | C14 (C12) quick, C14 thorough | exit 0 |
| pubsub, util/runner, events | bus.go, runner.go | events/publish.go, sdkutil/event.go | C15 (C16) quick, C15 thorough | exit 0 |
| provider/gateway | TLS verification, middleware, paths | router.go | C09 (Layer-2 build of the restructured middleware) | exit 0 |
| provider/cluster/kube | builders, util | client.go, apply.go, cleanup.go | C11 | r1 exit 0; **r2 first ended with exit 2 (`BUILD-FAILED kubesim`)** |

The one failure was the machinery's: the build-time export `VerifNewClient` filled the unexported `client` struct
by field name, and kube-r2 renames `ns` to `manifestNS`.  The export now finds the fields by their types
(kubernetes clientset, akash clientset, `Settings`, logger, the one string) and takes the name of the type that
implements `kube.Client` from client.go; with that, kube-r2 builds and passes.  (One more exit 2 in the log,
pubsubevents-r2 C15 thorough, was caused by editing `./check` while it was running; the script is now read
completely before it executes, and the run was repeated: exit 0.)  Raw results: `refactors/RESULTS.txt`.
"""

def main():
    seeded = open("/verif/build/seeded_table.md").read() if os.path.exists("/verif/build/seeded_table.md") else "(run tools/keepseeded.py)\n"
    open("/verif/SENSITIVITY.md", "w").write(HEAD + seeded + STRENGTHENED + REFACTORS)

if __name__ == "__main__":
    main()
