#!/bin/bash
# Builds every simulation engine from files on disk (offline) and warms the Go build cache.
cd "$(dirname "$0")"
./check build
